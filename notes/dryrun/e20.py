import warnings; warnings.filterwarnings("ignore")
import os; os.environ["OMP_NUM_THREADS"]="1"
import numpy as np, copy, itertools
from mabwiser.mab import MAB, LearningPolicy as LP, NeighborhoodPolicy as NP
exec(open("e8.py").read().split('print("== C10')[0].split("X = [[0,0]")[0])   # imports
src=open("e8.py").read(); exec(src[src.index("def rngs("):src.index('print("== C10')])
X = [[0,0],[0,1],[1,0],[1,1],[2,0],[0,2]]; dec=[1,2,1,2,1,2]; rew=[1,0,1,1,0,1]
Q = [[0,0],[1,1],[2,2]]
LPS = {"eg0":LP.EpsilonGreedy(0),"eg5":LP.EpsilonGreedy(.5),"ucb":LP.UCB1(1),"sm":LP.Softmax(),"ts":LP.ThompsonSampling(),"pop":LP.Popularity(),"rnd":LP.Random(),
       "lg":LP.LinGreedy(0.2),"lucb":LP.LinUCB(),"lts":LP.LinTS()}
NPS = {"none":None,"rad":NP.Radius(1.0),"knn":NP.KNearest(2),"lsh":NP.LSHNearest(2,2),"clu":NP.Clusters(2),"tree":NP.TreeBandit()}
def combos():
    for ln,l in LPS.items():
        for nn,n in NPS.items():
            if nn=="tree" and ln not in ("eg0","eg5","ucb","ts"): continue
            yield ln,nn,l,n
def ctxfree(ln,nn): return nn=="none" and ln not in ("lg","lucb","lts")
D2 = ([2,1,1],[1,1,0],[[2,2],[0,0],[1,0]])                   # smaller
D3 = ([1,2,2,1],[0,1,1,1],[[0,0,1],[1,1,0],[2,0,0],[0,1,1]]) # other #cols
bad={}
for ln,nn,l,n in combos():
    cf=ctxfree(ln,nn)
    for pname,prefix in (("fit",["fit"]),("fit+pfit",["fit","pfit"]),("fit+pred",["fit","pred"]),("fit+add+pfit",["fit","add","pfit3"]),("fit+rm",["fit","rm"]),("fit+ws",["fit","add","ws"])):
        for dname,D in (("smaller",D2),("cols",D3)):
            if cf and dname=="cols": continue
            m=MAB([1,2],l,n,seed=6)
            try:
                for op in prefix:
                    if op=="fit": (m.fit(dec,rew) if cf else m.fit(dec,rew,X))
                    elif op=="pfit": (m.partial_fit([2,2],[1,1]) if cf else m.partial_fit([2,2],[1,1],[[2,2],[2,1]]))
                    elif op=="pfit3": (m.partial_fit([3,3],[1,1]) if cf else m.partial_fit([3,3],[1,1],[[2,2],[2,1]]))
                    elif op=="pred": m.predict(None if cf else Q); m.predict_expectations(None if cf else Q)
                    elif op=="add": m.add_arm(3)
                    elif op=="rm": m.remove_arm(1)
                    elif op=="ws": m.warm_start({1:[1,0],2:[0,1],3:[1,0.1]},1.0)
            except Exception as ex:
                bad.setdefault(("PREFIX-EXC",pname,type(ex).__name__),[]).append((ln,nn)); continue
            fresh=MAB(list(m.arms),l,n,seed=6)
            fresh._rng.rng.bit_generator.state = m._rng.rng.bit_generator.state
            DD=D
            if 1 not in m.arms: DD=([2 if a==1 else a for a in D[0]],D[1],D[2])
            q = Q if dname!="cols" else [[0,0,1],[1,1,1]]
            try:
                for b in (m,fresh): (b.fit(DD[0],DD[1]) if cf else b.fit(*DD))
                sync(m,fresh)
                o1=[repr(m.predict_expectations(None if cf else q)), repr(m.cold_arms)]
                o2=[repr(fresh.predict_expectations(None if cf else q)), repr(fresh.cold_arms)]
                for b,o in ((m,o1),(fresh,o2)):
                    (b.partial_fit([2],[1]) if cf else b.partial_fit([2],[1],[q[0]])); o.append(repr(b.predict_expectations(None if cf else q)))
            except Exception as ex:
                bad.setdefault(("EXC",type(ex).__name__,str(ex)[:50]),[]).append((ln,nn,pname,dname)); continue
            if o1!=o2: bad.setdefault("DIFF",[]).append((ln,nn,pname,dname))
for k,v in bad.items(): print(k,len(v),sorted(set((a[1],)+a[2:] if len(a)>2 else a for a in v))[:12])
print("done")
