import warnings; warnings.filterwarnings("ignore")
import numpy as np, copy
from mabwiser.mab import MAB, LearningPolicy as LP, NeighborhoodPolicy as NP
X = [[0,0],[0,1],[1,0],[1,1],[2,0],[0,2]]; dec=[1,2,1,2,1,2]; rew=[1,0,1,1,0,1]; Q=[[0,0],[1,1],[2,2]]
def cont(m):
    try:
        m.partial_fit([2,1],[1,0],[[1,1],[0,0]]); return repr(m.predict_expectations(Q))
    except Exception as ex: return "EXC "+type(ex).__name__+str(ex)[:60]
print("== Clusters.fit with fewer rows than clusters")
for which in ("fit","partial_fit-first"):
    m=MAB([1,2],LP.EpsilonGreedy(0),NP.Clusters(2),seed=1); m.fit(dec,rew,X); twin=copy.deepcopy(m)
    try: m.fit([1],[1],[[0,0]]); print(" accepted")
    except Exception as ex: print(" rejected:",type(ex).__name__,str(ex)[:60], "| history len now", len(m._imp.decisions))
    a,b=cont(m),cont(twin); print(" continuation equal:",a==b); 
    if a!=b: print("   ",a,"\n   ",b)
    break
print("== TreeBandit partial_fit wrong #cols, cold arm listed first")
for arms in ([0,1,2],[1,2,0]):
    m=MAB(arms,LP.EpsilonGreedy(0),NP.TreeBandit(),seed=1); m.fit(dec,rew,X); twin=copy.deepcopy(m)
    try: m.partial_fit([0,1],[1,1],[[0,0,0],[1,1,1]]); print(" accepted")
    except Exception as ex: print(" arms",arms,"rejected:",type(ex).__name__,str(ex)[:50])
    def cont2(m):
        try: m.partial_fit([0,1],[5,0],[[1,1],[0,0]]); return repr(m.predict_expectations(Q))
        except Exception as ex: return "EXC "+type(ex).__name__+str(ex)[:60]
    a,b=cont2(m),cont2(twin); print("   continuation equal:",a==b)
    if a!=b: print("   ",a[:150],"\n   ",b[:150])
print("== Linear partial_fit wrong cols / fit with NaN contexts etc")
for lp in (LP.LinUCB(), LP.LinUCB(scale=True), LP.LinTS()):
    m=MAB([0,1,2],lp,seed=1); m.fit(dec,rew,X); twin=copy.deepcopy(m)
    try: m.partial_fit([1,2],[1,1],[[0,0,0],[1,1,1]]); print(" accepted")
    except Exception as ex: print(" rejected:",type(ex).__name__,str(ex)[:50])
    a,b=cont(m),cont(twin); print("   continuation equal:",a==b)
print("== fit() itself rejected inside training: linear fit with ragged? KNearest k>rows at predict")
m=MAB([1,2],LP.EpsilonGreedy(0),NP.KNearest(5),seed=1); m.fit(dec[:3],rew[:3],X[:3]); twin=copy.deepcopy(m)
try: m.predict(Q)
except Exception as ex: print(" predict rejected:",type(ex).__name__,str(ex)[:50])
m.partial_fit(dec[3:],rew[3:],X[3:]); twin.partial_fit(dec[3:],rew[3:],X[3:]); print("   continuation equal:", repr(m.predict_expectations(Q))==repr(twin.predict_expectations(Q)))
