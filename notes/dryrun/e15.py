import warnings; warnings.filterwarnings("ignore")
import os; os.environ["OMP_NUM_THREADS"]="1"
import numpy as np, copy, itertools, math, time
from fractions import Fraction
from mabwiser.mab import MAB, LearningPolicy as LP, NeighborhoodPolicy as NP
def cf_expect(lp, arms, dec, rew):
    m = MAB(list(arms), lp, seed=1); m.fit(list(dec), list(rew)); return m.predict_expectations()
def close(a,b): 
    return list(a)==list(b) and all((x!=x and y!=y) or abs(x-y)<=1e-9*max(1,abs(y)) for x,y in zip(a.values(),b.values()))
bad={}; cnt=0; skipped=0; t0=time.time()
# C11
gridm=[(x,y) for x in (-1,0,1) for y in (-1,0,1)]
def sign_pattern(x, plane):
    bits=[]
    for j in range(plane.shape[1]):
        s=sum(Fraction(xi)*Fraction(float(plane[i,j])) for i,xi in enumerate(x))
        if s!=0 and abs(float(s))<1e-12: return None
        bits.append(1 if s>0 else 0)
    return tuple(bits)
for lpname,lp in (("eg0",LP.EpsilonGreedy(0)),("ucb",LP.UCB1(1))):
  for nd,nt in ((1,1),(2,2),(3,2)):
    for seed in (3,):
      for rows in itertools.product(gridm, repeat=3):
        for assign in ((1,2,1),(1,1,2),(2,2,2)):
          rew=[1,2,4]
          for split in (3,2,1):
            for nj in (1,):
              m=MAB([1,2],lp,NP.LSHNearest(nd,nt),seed=seed,n_jobs=nj)
              m.fit(list(assign[:split]),rew[:split],[list(r) for r in rows[:split]])
              for i in range(split,3): m.partial_fit([assign[i]],[rew[i]],[list(rows[i])])
              planes=m._imp.table_to_plane
              Qs=list(dict.fromkeys(list(rows)+[tuple(2*v for v in r) for r in rows]+[tuple(0.5*v for v in r) for r in rows]+[(0,0),(1,1)]))
              E=m.predict_expectations([list(q) for q in Qs]); cnt+=1
              for q,e in zip(Qs,E):
                  S=set(); amb=False
                  for t in range(nt):
                      pq=sign_pattern(q,planes[t])
                      for i,r in enumerate(rows):
                          pr=sign_pattern(r,planes[t])
                          if pq is None or pr is None: amb=True
                          elif pq==pr: S.add(i)
                  if amb: skipped+=1; continue
                  if not S:
                      if not all(v!=v for v in e.values()): bad.setdefault("lsh-empty",[]).append((rows,q,e))
                  else:
                      S=sorted(S); want=cf_expect(lp,[1,2],[assign[i] for i in S],[rew[i] for i in S])
                      if not close(e,want): bad.setdefault(("lsh",lpname),[]).append((nd,nt,seed,rows,assign,split,q,e,want))
print("C11 bandits",cnt,"skipped",skipped,f"{time.time()-t0:.0f}s")
for k,v in bad.items(): print(k,len(v),v[:2])
