import warnings; warnings.filterwarnings("ignore")
import numpy as np, copy, itertools
from scipy.spatial.distance import cdist
from mabwiser.mab import MAB, LearningPolicy as LP

LPS = {"eg0":LP.EpsilonGreedy(0),"ucb":LP.UCB1(1),"sm":LP.Softmax(),"ts":LP.ThompsonSampling(),"pop":LP.Popularity(),
       "lg":LP.LinGreedy(0),"lucb":LP.LinUCB(),"lts":LP.LinTS()}
VEC = [(0,0),(1,0),(0,1),(1,1),(2,0)]
arms=[1,2,3]
def state(m, arm):
    imp=m._imp
    if hasattr(imp,"arm_to_model"):
        mo=imp.arm_to_model[arm]; return repr((mo.A.tolist(), mo.A_inv.tolist(), mo.Xty.tolist(), mo.beta.tolist()))
    if hasattr(imp,"arm_to_success_count"): return repr((imp.arm_to_success_count[arm], imp.arm_to_fail_count[arm]))
    d = {"sum":imp.arm_to_sum[arm],"count":imp.arm_to_count[arm]}
    if hasattr(imp,"arm_to_mean"): d["mean"]=imp.arm_to_mean[arm]
    else: d["exp"]=imp.arm_to_expectation[arm]
    return repr(d)
bad = {}
n=0
for ln,l in LPS.items():
    lin = ln in ("lg","lucb","lts")
    for trained in [(1,),(2,),(1,2),(1,3),(2,3)]:
        dec=[]; rew=[]; X=[]
        for i,a in enumerate(trained):
            dec += [a,a]; rew += [1,0] if i==0 else [1,1]; X += [[1,i],[0,1]]
        for feats in itertools.product(VEC, repeat=3):
            f = {a:list(v) for a,v in zip(arms,feats)}
            prev_warm=None
            for q in (0.0,0.25,0.5,0.75,1.0):
                m = MAB(arms, l, seed=3); (m.fit(dec,rew,X) if lin else m.fit(dec,rew))
                before = {a:state(m,a) for a in arms}; cold0 = list(m.cold_arms)
                assert set(cold0)==set(arms)-set(trained)
                try: m.warm_start(f,q)
                except Exception as ex:
                    bad.setdefault(("raised",type(ex).__name__),[]).append((ln,trained,feats,q)); break
                n+=1
                after = {a:state(m,a) for a in arms}
                warmed = [a for a in cold0 if a not in m.cold_arms]
                for a in trained:
                    if before[a]!=after[a]: bad.setdefault("trained-modified",[]).append((ln,trained,feats,q,a))
                for a in cold0:
                    if a in warmed:
                        srcs=[t for t in trained if before[t]==after[a]]
                        if not srcs: bad.setdefault("warm-not-copy",[]).append((ln,trained,feats,q,a))
                        # closest trained?
                        D = {t: cdist([f[a]],[f[t]],'cosine')[0][0] for t in trained}
                        D = {t:(999999 if np.isnan(v) else v) for t,v in D.items()}
                        mn=min(D.values())
                        if not any(D[s]==mn for s in srcs): bad.setdefault("not-closest",[]).append((ln,trained,feats,q,a,D,srcs))
                    else:
                        if before[a]!=after[a]: bad.setdefault("cold-modified",[]).append((ln,trained,feats,q,a))
                if prev_warm is not None and not set(prev_warm)<=set(warmed): bad.setdefault("non-monotone",[]).append((ln,trained,feats,q,prev_warm,warmed))
                prev_warm=warmed
                # idempotent
                snap={a:state(m,a) for a in arms}; c=list(m.cold_arms); m.warm_start(f,q)
                if snap!={a:state(m,a) for a in arms} or c!=list(m.cold_arms): bad.setdefault("non-idempotent",[]).append((ln,trained,feats,q, c, list(m.cold_arms)))
print("executions", n)
for k,v in bad.items(): print(k, len(v), v[:3])
