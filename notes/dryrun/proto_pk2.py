import warnings; warnings.filterwarnings("ignore")
import numpy as np, copy, pickle, pickletools, io
from mabwiser.mab import MAB, LearningPolicy as LP, NeighborhoodPolicy as NP
X = [[0,0],[0,1],[1,0],[1,1],[2,0],[0,2]]; dec=[1,2,1,2,1,2]; rew=[1,0,1,1,0,1]
m=MAB([1,2],LP.EpsilonGreedy(0),NP.TreeBandit(),seed=4); m.fit(dec,rew,X)
a=pickle.dumps(m,4); b=pickle.dumps(copy.deepcopy(m),4); c=pickle.dumps(copy.deepcopy(copy.deepcopy(m)),4); d=pickle.dumps(pickle.loads(a),4)
print(len(a),len(b),len(c),len(d), a==b, b==c, a==d, d==pickle.dumps(pickle.loads(d),4))
# locate first diff
i=next(i for i,(x,y) in enumerate(zip(a,b)) if x!=y); print("first diff at",i, a[i-40:i+20], b[i-40:i+20])
t=m._imp.arm_to_tree[1]
st=t.tree_.__getstate__(); print({k:(v.dtype if hasattr(v,'dtype') else type(v)) for k,v in st.items()})
print(st['nodes'].dtype)
