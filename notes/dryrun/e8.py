import warnings; warnings.filterwarnings("ignore")
import numpy as np, pandas as pd, copy, pickle, itertools
from mabwiser.mab import MAB, LearningPolicy as LP, NeighborhoodPolicy as NP

X = [[0,0],[0,1],[1,0],[1,1],[2,0],[0,2]]
dec=[1,2,1,2,1,2]; rew=[1,0,1,1,0,1]
Q = [[0,0],[1,1],[2,2]]
LPS = {"eg0":LP.EpsilonGreedy(0),"eg5":LP.EpsilonGreedy(.5),"ucb":LP.UCB1(1),"sm":LP.Softmax(),"ts":LP.ThompsonSampling(),"pop":LP.Popularity(),"rnd":LP.Random(),
       "lg":LP.LinGreedy(0),"lucb":LP.LinUCB(),"lts":LP.LinTS()}
NPS = {"none":None,"rad":NP.Radius(1.0),"knn":NP.KNearest(2),"lsh":NP.LSHNearest(2,2),"clu":NP.Clusters(2),"tree":NP.TreeBandit()}
def combos():
    for ln,l in LPS.items():
        for nn,n in NPS.items():
            if nn=="tree" and ln not in ("eg0","eg5","ucb","ts"): continue
            yield ln,nn,l,n
def ctxfree(ln,nn): return nn=="none" and ln not in ("lg","lucb","lts")

def rngs(obj, seen=None, path="", out=None):
    """collect all numpy Generators reachable, keyed by path"""
    if out is None: out={}; seen=set()
    if id(obj) in seen: return out
    seen.add(id(obj))
    if isinstance(obj, np.random.Generator): out[path]=obj; return out
    if isinstance(obj, dict):
        for k,v in obj.items(): rngs(v,seen,path+f"[{k!r}]",out)
    elif isinstance(obj,(list,tuple)):
        for i,v in enumerate(obj): rngs(v,seen,path+f"[{i}]",out)
    elif hasattr(obj,"__dict__") and not isinstance(obj,type) and type(obj).__module__.startswith("mabwiser"):
        for k,v in vars(obj).items(): rngs(v,seen,path+"."+k,out)
    return out
def sync(src,dst):
    a,b = rngs(src), rngs(dst)
    assert a.keys()==b.keys(), (a.keys()^b.keys())
    for k in a: b[k].bit_generator.state = a[k].bit_generator.state

print("== C10 queried vs unqueried twin (rng synced), continuation partial_fit+predict_expectations")
for ln,nn,l,n in combos():
    cf = ctxfree(ln,nn)
    m = MAB([1,2], l, n, seed=11); (m.fit(dec,rew) if cf else m.fit(dec,rew,X))
    twin = copy.deepcopy(m)
    for _ in range(2):
        m.predict(None if cf else Q); m.predict_expectations(None if cf else Q[:1])
    sync(m, twin)
    outs=[]
    for b in (m,twin):
        if cf: b.partial_fit([2,1],[1,0]); b.add_arm(3); o=b.predict_expectations()
        else: b.partial_fit([2,1],[1,0],[[1,1],[0,0]]); b.add_arm(3); o=b.predict_expectations(Q)
        outs.append(repr(o))
    print(f"{ln:5s}{nn:5s}", "ok" if outs[0]==outs[1] else "C10-MISMATCH", len(rngs(m)))
