import warnings; warnings.filterwarnings("ignore")
import os; os.environ["OMP_NUM_THREADS"]="1"
import numpy as np, copy
from mabwiser.mab import MAB, LearningPolicy as LP, NeighborhoodPolicy as NP
X = [[0,0],[0,1],[1,0],[1,1],[2,0],[0,2]]; dec=[1,2,1,2,1,2]; rew=[1,0,1,1,0,1]; Q=[[0,0],[1,1],[2,2]]
D2 = ([2,1,1],[1,1,0],[[2,2],[0,0],[1,0]])
for ln,l in {"eg0":LP.EpsilonGreedy(0),"ts":LP.ThompsonSampling(),"lts":LP.LinTS(),"sm":LP.Softmax(),"rnd":LP.Random()}.items():
    m=MAB([1,2],l,NP.Clusters(2),seed=6); m.fit(dec,rew,X); m.add_arm(3); m.warm_start({1:[1,0],2:[0,1],3:[1,0.1]},1.0)
    fresh=MAB([1,2,3],l,NP.Clusters(2),seed=6); fresh._rng.rng.bit_generator.state = m._rng.rng.bit_generator.state
    m.fit(*D2); fresh.fit(*D2)
    a=m.predict_expectations(Q); b=fresh.predict_expectations(Q)
    print(ln, repr(a)==repr(b)); 
    if repr(a)!=repr(b): print("  ",a,"\n  ",b)
