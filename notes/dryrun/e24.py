import warnings; warnings.filterwarnings("ignore")
import os; os.environ["OMP_NUM_THREADS"]="1"
import numpy as np, copy, pickle, itertools, time
from mabwiser.mab import MAB, LearningPolicy as LP, NeighborhoodPolicy as NP
X = [[0,0],[0,1],[1,0],[1,1],[2,0],[0,2]]; dec=[1,2,1,2,1,2]; rew=[1,0,1,1,0,1]
Q = np.array([[0,0],[1,1],[2,2],[0,1],[5,5]])
LPS = {"eg0":LP.EpsilonGreedy(0),"eg5":LP.EpsilonGreedy(.5),"ucb":LP.UCB1(1),"sm":LP.Softmax(),"ts":LP.ThompsonSampling(),"pop":LP.Popularity(),"rnd":LP.Random(),
       "lg":LP.LinGreedy(0.5),"lucb":LP.LinUCB(),"lts":LP.LinTS()}
NPS = {"rad":NP.Radius(1.0),"knn":NP.KNearest(2),"lsh":NP.LSHNearest(2,2),"clu":NP.Clusters(2),"mclu":NP.Clusters(2,True),"tree":NP.TreeBandit()}
def compositions(n):
    for bits in itertools.product((0,1),repeat=n-1):
        cuts=[0]+[i+1 for i,b in enumerate(bits) if b]+[n]; yield list(zip(cuts[:-1],cuts[1:]))
bad={}; runs=0; t0=time.time()
for ln,l in LPS.items():
    for nn,npol in NPS.items():
        if nn=="tree" and ln not in ("eg0","eg5","ucb","ts"): continue
        m=MAB([1,2],l,npol,seed=5); m.fit(dec,rew,X); imp=m._imp
        blob=pickle.dumps(imp); seeds=np.arange(200,205)
        for is_predict in (False,True):
            whole=pickle.loads(blob)._predict_contexts(Q,is_predict,seeds,0)
            for comp in compositions(len(Q)):
                out=[]
                for a,b in comp: out+=pickle.loads(blob)._predict_contexts(Q[a:b],is_predict,seeds[a:b],a)
                runs+=1
                if repr(out)!=repr(whole): bad.setdefault((ln,nn,"predict" if is_predict else "expect"),[]).append(comp)
print("runs",runs,f"{time.time()-t0:.0f}s")
for k,v in bad.items(): print(k,len(v))
