import warnings; warnings.filterwarnings("ignore")
import logging, time, itertools, math
import numpy as np, copy
from mabwiser.mab import MAB, LearningPolicy as LP, NeighborhoodPolicy as NP
from mabwiser.simulator import Simulator
logging.disable(logging.CRITICAL)
print("== C08: Radius(no_nhood_prob_of_arm=[.5,.5]) + add_arm + empty nhood")
m = MAB([1,2], LP.EpsilonGreedy(0), NP.Radius(0.5, no_nhood_prob_of_arm=[0.5,0.5]), seed=1)
m.fit([1,2],[1,0],[[0,0],[1,1]]); m.add_arm(3)
try: print(m.predict([[5,5]]), m.predict_expectations([[5,5]]))
except Exception as ex: print(" raised", type(ex).__name__, ex)
m = MAB([1,2], LP.EpsilonGreedy(0), NP.Radius(0.5), seed=1)
m.fit([1,2],[1,0],[[0,0],[1,1]]); m.add_arm(3); print(" default p:", m.predict([[5,5]]), m.predict_expectations([[5,5]]))

print("== C16 invariants scan")
rs = np.random.RandomState(2)
bad={}; cnt=0
for n in (7,10):
  X = rs.randint(0,3,size=(n,2)); 
  for arms,decs in (([1,2,3], rs.randint(1,3,size=n)), ([1,2], rs.randint(1,3,size=n))):   # arm 3 absent from data
    rew = rs.randint(0,5,size=n).astype(float)
    for npol in (None, NP.Radius(1.5), NP.KNearest(2), NP.LSHNearest(2,2)):
      for ts in (0.2,0.34,0.5):
        for ordered in (True,False):
          ntest = math.ceil(n*ts)
          for batch in range(0,ntest+1):
            for quick in (False,True):
                mab = MAB(arms, LP.EpsilonGreedy(0.2), npol, seed=3)
                try:
                    sim = Simulator([("b",mab)], decs, rew, None if npol is None else X, test_size=ts, is_ordered=ordered, batch_size=batch, seed=9, is_quick=quick); sim.run()
                except Exception as ex:
                    bad.setdefault(("EXC",type(ex).__name__,str(ex)[:70]),[]).append((n,arms,npol,ts,ordered,batch,quick)); continue
                finally: logging.getLogger().handlers.clear()
                cnt+=1
                te=list(sim.test_indices); tr=[i for i in range(n) if i not in set(te)]
                key=(n,len(arms),type(npol).__name__,ts,ordered,batch,quick)
                if sorted(te+tr)!=list(range(n)) or len(set(te))!=len(te): bad.setdefault("partition",[]).append(key)
                if ordered and te!=list(range(n-len(te),n)): bad.setdefault("ordered-last",[]).append(key)
                if len(sim.bandit_to_predictions["b"])!=len(te): bad.setdefault("npred",[]).append(key)
                for a in arms:
                    T,R,E = sim.arm_to_stats_total[a], sim.arm_to_stats_train[a], sim.arm_to_stats_test[a]
                    if T['count']!=R['count']+E['count'] or abs(T['sum']-R['sum']-E['sum'])>1e-9: bad.setdefault("conservation",[]).append(key)
                    sel = rew[decs==a]
                    exp = {'count':sel.size,'sum':sel.sum() if sel.size else 0}
                    if T['count']!=exp['count'] or T['sum']!=exp['sum']: bad.setdefault("total-stats",[]).append(key)
                def tot(d): return d if batch==0 else d['total']
                mn,av,mx = tot(sim.bandit_to_arm_to_stats_min["b"]), tot(sim.bandit_to_arm_to_stats_avg["b"]), tot(sim.bandit_to_arm_to_stats_max["b"])
                if sum(mn[a]['count'] for a in arms)!=len(te): bad.setdefault("evalcount",[]).append(key)
                for a in arms:
                    if mn[a]['count'] and not (mn[a]['sum']<=av[a]['sum']+1e-9 and av[a]['sum']<=mx[a]['sum']+1e-9): bad.setdefault("order",[]).append((key,a,mn[a]['sum'],av[a]['sum'],mx[a]['sum']))
print("sims",cnt)
for k,v in bad.items(): print(k,len(v),v[:3])
