import warnings; warnings.filterwarnings("ignore")
import sys, threading, dis, time, copy, pickle
import numpy as np
from mabwiser.mab import MAB, LearningPolicy as LP, NeighborhoodPolicy as NP
src=open("proto_sched.py").read()
exec(src[src.index("SHARED_OPS"):src.index("def explore(")])
SHARED_OPS.discard("LOAD_GLOBAL")
SHARED_IDS=set()
def _trace(self, tid):
    def local(frame, event, arg):
        if event=="opcode":
            op = dis.opname[frame.f_code.co_code[frame.f_lasti]]
            if op in SHARED_OPS: self._yield(tid)
        return local
    def glob(frame, event, arg):
        if "mabwiser" in frame.f_code.co_filename and id(frame.f_locals.get("self")) in SHARED_IDS:
            frame.f_trace_opcodes=True
            return local
        return None
    return glob
Sched._trace=_trace
exec(open("proto_sched2.py").read().split("def explore_thunks")[1].join(["def explore_thunks",""]).split("X = [[0,0]")[0])
def shared_ids(m):
    ids=set(); stack=[m._imp]
    while stack:
        o=stack.pop()
        if id(o) in ids: continue
        if type(o).__module__.startswith("mabwiser"):
            ids.add(id(o)); stack.extend(vars(o).values())
        elif isinstance(o,(list,tuple)): stack.extend(o)
        elif isinstance(o,dict): stack.extend(o.values())
    return ids
X = [[0,0],[0,1],[1,0],[1,1],[2,0],[0,2]]; dec=[1,2,1,2,1,2]; rew=[1,0,1,1,0,1]
Q = np.array([[0,0],[1,1],[2,2],[0,1]])
for name,lp,npol in [("Radius+TS",LP.ThompsonSampling(),NP.Radius(1.0)),("TreeBandit+TS",LP.ThompsonSampling(),NP.TreeBandit()),("TreeBandit+UCB",LP.UCB1(),NP.TreeBandit()),("LSH+EG",LP.EpsilonGreedy(0.5),NP.LSHNearest(2,2)),("Clusters+SM",LP.Softmax(),NP.Clusters(2)),("KNN+LinTS",LP.LinTS(),NP.KNearest(2))]:
    base=MAB([1,2],lp,npol,seed=5); base.fit(dec,rew,X)
    seeds=np.arange(100,104)
    seq = repr(copy.deepcopy(base)._imp._predict_contexts(Q,False,seeds,0))
    def make():
        m=copy.deepcopy(base); imp=m._imp
        SHARED_IDS.clear(); SHARED_IDS.update(shared_ids(m))
        th=[lambda: imp._predict_contexts(Q[0:2],False,seeds[0:2],0), lambda: imp._predict_contexts(Q[2:4],False,seeds[2:4],2)]
        return th, (lambda res: repr(res[0]+res[1])==seq)
    for b in (0,1,2):
        t=time.time(); st=explore_thunks(make,b,cap=30000); dt=time.time()-t
        print(f"{name:15s} bound {b} schedules {st['schedules']:6d} points {st['points']:4d} equal-to-sequential {st['outcomes']} {dt:.1f}s", "CAPPED" if st.get("capped") else "")
