import warnings; warnings.filterwarnings("ignore")
import logging
import numpy as np, copy, pickle
from mabwiser.mab import MAB, LearningPolicy as LP, NeighborhoodPolicy as NP

X = [[0,0],[0,1],[1,0],[1,1],[2,0],[0,2]]
dec=[1,2,1,2,1,2]; rew=[10,0,12,11,0,15]
Q = [[0,0],[1,1]]
def binz(arm, r): return r >= 10   # not idempotent on {0,1}: binz(1)=False
pre = [int(binz(d,r)) for d,r in zip(dec,rew)]
print("== C14 binarizer once vs twice")
for name, npol in [("none",None),("Radius",NP.Radius(5.0)),("KNearest",NP.KNearest(6)),("LSH",NP.LSHNearest(1,1)),("Clusters",NP.Clusters(2)),("TreeBandit",NP.TreeBandit())]:
    a = MAB([1,2], LP.ThompsonSampling(binz), npol, seed=5)
    b = MAB([1,2], LP.ThompsonSampling(), npol, seed=5)
    if npol is None:
        a.fit(dec,rew); b.fit(dec,pre); ea=a.predict_expectations(); eb=b.predict_expectations()
    else:
        a.fit(dec,rew,X); b.fit(dec,pre,X); ea=a.predict_expectations(Q); eb=b.predict_expectations(Q)
    print(f" {name:10s} equal={str(ea)==str(eb)}")
print("== C14 add_arm(binarizer) under Clusters")
a = MAB([1,2], LP.ThompsonSampling(binz), NP.Clusters(2), seed=5); a.fit(dec,rew,X)
try: a.add_arm(3, binz); print(" ok")
except Exception as e: print(" raised", type(e).__name__, e, "arms:", a.arms)

print("== C17 neighbours partial_fit with wrong #columns")
for name, npol in [("Radius",NP.Radius(5.0)),("KNearest",NP.KNearest(2)),("LSH",NP.LSHNearest(1,1)),("Clusters",NP.Clusters(2))]:
    a = MAB([1,2], LP.EpsilonGreedy(0), npol, seed=5); a.fit(dec,rew,X)
    twin = copy.deepcopy(a)
    try: a.partial_fit([1,2],[100,100],[[0,0,0],[1,1,1]]); print("  not rejected")
    except Exception as e: print(f" {name}: rejected with {type(e).__name__}; lens dec/ctx/rew =", len(a._imp.decisions), len(a._imp.contexts), len(a._imp.rewards))
    for m in (a, twin): 
        try: m.partial_fit([2,2],[7,7],[[0,0],[1,1]])
        except Exception as e: print("   continuation raised", type(e).__name__, e)
    try: print("   after continuation:", a.predict_expectations(Q), "twin:", twin.predict_expectations(Q))
    except Exception as e: print("   predict raised", type(e).__name__, e)
