import warnings; warnings.filterwarnings("ignore")
import logging, time, itertools
import numpy as np, copy, pickle
from mabwiser.mab import MAB, LearningPolicy as LP, NeighborhoodPolicy as NP
from mabwiser.simulator import Simulator
from sklearn.model_selection import train_test_split
logging.disable(logging.CRITICAL)

LPS = {"eg0":LP.EpsilonGreedy(0),"eg5":LP.EpsilonGreedy(.5),"ucb":LP.UCB1(1),"sm":LP.Softmax(),"ts":LP.ThompsonSampling(),"pop":LP.Popularity(),"rnd":LP.Random(),
       "lg":LP.LinGreedy(0.3),"lucb":LP.LinUCB(),"lts":LP.LinTS()}
NPS = {"none":None,"rad":NP.Radius(1.5),"knn":NP.KNearest(2),"lsh":NP.LSHNearest(2,2),"clu":NP.Clusters(2),"tree":NP.TreeBandit()}
def combos():
    for ln,l in LPS.items():
        for nn,n in NPS.items():
            if nn=="tree" and ln not in ("eg0","eg5","ucb","ts"): continue
            yield ln,nn,l,n
def ctxfree(ln,nn): return nn=="none" and ln not in ("lg","lucb","lts")
rs = np.random.RandomState(1)
n=12
X = rs.randint(0,3,size=(n,2)); dec = rs.randint(1,3,size=n); rew = rs.randint(0,2,size=n)

def replay(mab, cf, nbr, tr, te, batch):
    m = copy.deepcopy(mab)
    (m.fit(dec[tr], rew[tr]) if cf else m.fit(dec[tr], rew[tr], X[tr]))
    preds=[]; exps=[]
    batches = [te] if batch==0 else [te[s:s+batch] for s in range(0,len(te),batch)]
    for b in batches:
        if cf:
            preds += [m.predict() for _ in b]
            exps.append(copy.deepcopy(m._imp.arm_to_expectation))
        else:
            if nbr:  # expectations from a copy so that the main stream is advanced once per batch, as the simulator does
                e = copy.deepcopy(m).predict_expectations(X[b])
            p = m.predict(X[b]); p = p if isinstance(p,list) else [p]; preds += p
            if not nbr: e = m.predict_expectations(X[b])
            exps += e if isinstance(e,list) else [e]
        if batch: (m.partial_fit(dec[b],rew[b]) if cf else m.partial_fit(dec[b],rew[b],X[b]))
    return preds, exps
bad={}; cnt=0; t0=time.time()
for ln,nn,l,npol in combos():
    cf=ctxfree(ln,nn); nbr = nn in ("rad","knn","lsh")
    for ordered in (True,False):
        for batch in (0,1,2,3):
            for quick in (False,True):
                mab = MAB([1,2], l, npol, seed=3); orig=copy.deepcopy(mab)
                sim = Simulator([("b",mab)], dec, rew, None if cf else X, test_size=0.34, is_ordered=ordered, batch_size=batch, seed=9, is_quick=quick)
                try: sim.run()
                except Exception as ex:
                    bad.setdefault(("SIM-EXC",type(ex).__name__,str(ex)[:60]),[]).append((ln,nn,ordered,batch,quick)); continue
                finally:
                    logging.getLogger().handlers.clear()
                cnt+=1
                te = np.array(sim.test_indices)
                if ordered: tr = np.array([i for i in range(n) if i not in set(te)])
                else:
                    tr_, te_ = train_test_split(list(range(n)), test_size=0.34, random_state=9); tr=np.array(tr_); assert list(te_)==list(te)
                p,e = replay(orig, cf, nbr, tr, te, batch)
                if list(sim.bandit_to_predictions["b"])!=list(p): bad.setdefault("PRED",[]).append((ln,nn,ordered,batch,quick))
                det = ln in ("eg0","ucb","lucb","pop") or (ln=="lg" and False)
                if det and not cf:
                    se = sim.bandit_to_expectations["b"]
                    if len(se)!=len(e) or any((a!={} or not all(v!=v for v in b_.values())) and repr(a)!=repr(b_) for a,b_ in zip(se,e)):
                        bad.setdefault("EXP",[]).append((ln,nn,ordered,batch,quick))
print("sims",cnt,f"{time.time()-t0:.1f}s")
for k,v in bad.items(): print(k,len(v),v[:6])
