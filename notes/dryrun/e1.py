import warnings; warnings.filterwarnings("ignore")
import numpy as np, copy, pickle
from mabwiser.mab import MAB, LearningPolicy as LP, NeighborhoodPolicy as NP

print("== C01 Popularity partial_fit omitting an arm")
m = MAB([1,2], LP.Popularity(), seed=7)
m.fit([1,1,2,2],[1,1,3,3])
print(" after fit", m._imp.arm_to_expectation)   # .25 .75
m.partial_fit([1],[1])
print(" after partial_fit [1]->1 (means still 1 and 3):", m._imp.arm_to_expectation)

print("== C02 never-observed arm A_inv")
m = MAB([1,2], LP.LinUCB(alpha=1, l2_lambda=4), seed=7)
m.fit([1,1],[1,2],[[1,0],[0,1]])
print(" A_inv arm2", m._imp.arm_to_model[2].A_inv, "expected I/4")
print(" exp", m.predict_expectations([[1,0]]), "expected arm2 bonus sqrt(1/4)=0.5")

print("== C02 LinTS d=1, m>1")
m = MAB([1,2], LP.LinTS(alpha=1e-9, l2_lambda=1), seed=7)
m.fit([1,1,2,2],[1,2,2,4],[[1],[2],[1],[2]])
print(" beta", m._imp.arm_to_model[1].beta, m._imp.arm_to_model[2].beta)
print(" single", [m.predict_expectations([[x]]) for x in (1,2,3)])
print(" batch ", m.predict_expectations([[1],[2],[3]]))
