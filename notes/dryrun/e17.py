import warnings; warnings.filterwarnings("ignore")
import os; os.environ["OMP_NUM_THREADS"]="1"
import numpy as np, itertools, math, time
from fractions import Fraction as F
from mabwiser.mab import MAB, LearningPolicy as LP

def solve(A,b):
    n=len(A); M=[row[:]+[b[i]] for i,row in enumerate(A)]
    for c in range(n):
        p=next(r for r in range(c,n) if M[r][c]!=0); M[c],M[p]=M[p],M[c]
        piv=M[c][c]; M[c]=[v/piv for v in M[c]]
        for r in range(n):
            if r!=c and M[r][c]!=0:
                f=M[r][c]; M[r]=[a-f*b_ for a,b_ in zip(M[r],M[c])]
    return [M[i][n] for i in range(n)]
def inv(A):
    n=len(A); cols=[solve(A,[F(int(i==j)) for i in range(n)]) for j in range(n)]
    return [[cols[j][i] for j in range(n)] for i in range(n)]
def ridge(rows, lam, d):
    A=[[F(lam) if i==j else F(0) for j in range(d)] for i in range(d)]; b=[F(0)]*d
    for x,y in rows:
        for i in range(d):
            b[i]+=F(x[i])*F(y)
            for j in range(d): A[i][j]+=F(x[i])*F(x[j])
    Ai=inv(A); beta=[sum(Ai[i][j]*b[j] for j in range(d)) for i in range(d)]
    return Ai,beta
def scaler(rows,d):
    n=len(rows); mu=[sum(F(x[i]) for x,_ in rows)/n for i in range(d)]
    var=[sum((F(x[i])-mu[i])**2 for x,_ in rows)/n for i in range(d)]
    sd=[math.sqrt(float(v)) if float(v)>1e-12 else 1.0 for v in var]
    sd=[s if s>1e-6 else 1.0 for s in sd]
    return [float(m) for m in mu], sd
bad={}; cnt=0; t0=time.time()
Ys=[-1,0.5,2]
for d in (1,2):
  grid=list(itertools.product((0,1,2),repeat=d)) if d==1 else [(0,0),(1,0),(0,1),(2,1)]
  rowalpha=[(a,x,y) for a in (1,2) for x in grid[:3] for y in (0.5,2)][:8]
  for pol in ("lg","lucb","lts"):
    for lam in (0.5,1,2):
      for scale in (False,True):
        for n in (1,2,3):
          for seq in itertools.product(rowalpha, repeat=n):
            splits=[(n,)] if scale else [c for c in ([(n,)]+[(i,n-i) for i in range(1,n)])]
            for split in splits:
              for alpha in ((0.5,2) if pol=="lucb" else (1e-9,) if pol=="lts" else (0,)):
                lp = LP.LinGreedy(0,lam,scale) if pol=="lg" else LP.LinUCB(alpha,lam,scale) if pol=="lucb" else LP.LinTS(alpha,lam,scale)
                m=MAB([1,2],lp,seed=3); pos=0
                for ci,c in enumerate(split):
                    chunk=seq[pos:pos+c]; pos+=c
                    f = m.fit if ci==0 else m.partial_fit
                    f([r[0] for r in chunk],[r[2] for r in chunk],[list(r[1]) for r in chunk])
                cnt+=1
                for mq in (1,2,3):
                    Q=[list(g) for g in grid[:mq]]
                    E=m.predict_expectations(Q); E=E if isinstance(E,list) else [E]
                    for q,e in zip(Q,E):
                        for a in (1,2):
                            rows=[(r[1],r[2]) for r in seq if r[0]==a]
                            if rows and scale:
                                mu,sd=scaler(rows,d); rows_s=[([ (x[i]-mu[i])/sd[i] for i in range(d)],y) for x,y in rows]; qs=[(q[i]-mu[i])/sd[i] for i in range(d)]
                                # float ridge for scaled (irrational): use numpy solve
                                X=np.array([r[0] for r in rows_s]); Y=np.array([r[1] for r in rows_s]); A=lam*np.eye(d)+X.T@X; beta=np.linalg.solve(A,X.T@Y); Ai=np.linalg.inv(A)
                                mean=float(np.dot(qs,beta)); var=float(np.array(qs)@Ai@np.array(qs))
                            else:
                                Ai,beta=ridge(rows,lam,d); mean=float(sum(F(q[i])*beta[i] for i in range(d))); var=float(sum(F(q[i])*Ai[i][j]*F(q[j]) for i in range(d) for j in range(d)))
                            want = mean + (alpha*math.sqrt(var) if pol=="lucb" else 0)
                            tol = 1e-6 if pol=="lts" else 1e-8
                            if abs(e[a]-want)>tol*max(1,abs(want)):
                                key=(pol,"unobserved" if not rows else "observed","d=%d"%d,"m=%d"%mq, "lam=1" if lam==1 else "lam!=1")
                                bad.setdefault(key,[]).append((lam,scale,seq,split,alpha,q,a,e[a],want))
print("C02 bandits",cnt,f"{time.time()-t0:.0f}s")
for k,v in sorted(bad.items()): print(k,len(v),v[0])
