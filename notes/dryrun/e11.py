import warnings; warnings.filterwarnings("ignore")
import numpy as np, pandas as pd, copy, pickle, itertools
from mabwiser.mab import MAB, LearningPolicy as LP, NeighborhoodPolicy as NP
X = [[0,0],[0,1],[1,0],[1,1],[2,0],[0,2]]
dec=[1,2,1,2,1,2]; rew=[1,0,1,1,0,1]
Q = [[0,0],[1,1],[2,2]]
LPS = {"eg0":LP.EpsilonGreedy(0),"eg5":LP.EpsilonGreedy(.5),"ucb":LP.UCB1(1),"sm":LP.Softmax(),"ts":LP.ThompsonSampling(),"pop":LP.Popularity(),"rnd":LP.Random(),
       "lg":LP.LinGreedy(0.3),"lucb":LP.LinUCB(),"lts":LP.LinTS()}
NPS = {"none":None,"rad":NP.Radius(1.0),"knn":NP.KNearest(2),"lsh":NP.LSHNearest(2,2),"clu":NP.Clusters(2),"tree":NP.TreeBandit()}
def combos():
    for ln,l in LPS.items():
        for nn,n in NPS.items():
            if nn=="tree" and ln not in ("eg0","eg5","ucb","ts"): continue
            yield ln,nn,l,n
def ctxfree(ln,nn): return nn=="none" and ln not in ("lg","lucb","lts")
maps = {"str":{1:"b",2:"a",3:"zz"}, "float":{1:2.5,2:1.5,3:0.25}, "int2":{1:20,2:10,3:5}}
bad={}
for ln,nn,l,n in combos():
    cf=ctxfree(ln,nn)
    def run(f):
        m = MAB([f(1),f(2)], l, n, seed=11)
        d=[f(a) for a in dec]
        (m.fit(d,rew) if cf else m.fit(d,rew,X))
        m.add_arm(f(3)); 
        (m.partial_fit([f(3),f(1)],[1,0]) if cf else m.partial_fit([f(3),f(1)],[1,0],[[1,1],[0,0]]))
        p = m.predict(None if cf else Q); e = m.predict_expectations(None if cf else Q)
        return p,e
    p0,e0 = run(lambda a:a)
    for mn,mp in maps.items():
        try:
            p,e = run(lambda a: mp[a])
        except Exception as ex:
            bad.setdefault(("EXC",mn,type(ex).__name__),[]).append((ln,nn,str(ex)[:50])); continue
        inv={v:k for k,v in mp.items()}
        if cf: p=[p]; e=[e]; P0=[p0]; E0=[e0]
        else: P0,E0=p0,e0
        pp=[inv[x] for x in p]; ee=[{inv[k]:v for k,v in d.items()} for d in e]
        if pp!=P0: bad.setdefault(("PRED",mn),[]).append((ln,nn,pp,P0))
        if repr(ee)!=repr(E0) or [list(d) for d in ee]!=[list(d) for d in E0]: bad.setdefault(("EXP",mn),[]).append((ln,nn))
for k,v in bad.items(): print(k,len(v),v[:6])
print("done")
