import warnings; warnings.filterwarnings("ignore")
import os; os.environ["OMP_NUM_THREADS"]="1"
import numpy as np, copy, itertools, time
from mabwiser.mab import MAB, LearningPolicy as LP, NeighborhoodPolicy as NP
def compositions(n):
    for bits in itertools.product((0,1),repeat=n-1):
        cuts=[0]+[i+1 for i,b in enumerate(bits) if b]+[n]; yield list(zip(cuts[:-1],cuts[1:]))
X = [[0,0],[0,1],[1,0],[1,1],[2,0]]; dec=[1,1,2,1,2]; rew=[1,0,1,1,0]
Q = [[0,0],[1,1],[2,2]]
LPS = {"eg0":LP.EpsilonGreedy(0),"eg5":LP.EpsilonGreedy(.5),"ucb":LP.UCB1(1),"sm":LP.Softmax(),"ts":LP.ThompsonSampling(),"pop":LP.Popularity(),"rnd":LP.Random(),
       "lg":LP.LinGreedy(0.0),"lucb":LP.LinUCB(),"lts":LP.LinTS(alpha=1e-9)}
NPS = {"none":None,"rad":NP.Radius(1.0),"knn":NP.KNearest(2),"lsh":NP.LSHNearest(2,2),"clu":NP.Clusters(2),"mclu":NP.Clusters(2,True)}
bad={}; runs=0; skipped=0; t0=time.time()
for ln,l in LPS.items():
    for nn,npol in NPS.items():
        cf = nn=="none" and ln not in ("lg","lucb","lts")
        def train(comp):
            m=MAB([1,2],l,npol,seed=5)
            for i,(a,b) in enumerate(comp):
                f=m.fit if i==0 else m.partial_fit
                (f(dec[a:b],rew[a:b]) if cf else f(dec[a:b],rew[a:b],X[a:b]))
            return m
        base=train([(0,5)]); e0=base.predict_expectations(None if cf else Q); e0=e0 if isinstance(e0,list) else [e0]
        for comp in compositions(5):
            if nn in("clu","mclu") and comp[0][1]<2: skipped+=1; continue
            try: m=train(comp)
            except Exception as ex: bad.setdefault(("EXC",ln,nn,type(ex).__name__,str(ex)[:40]),[]).append(comp); continue
            e=m.predict_expectations(None if cf else Q); e=e if isinstance(e,list) else [e]; runs+=1
            exact = ln not in ("lg","lucb","lts")
            ok = (repr(e)==repr(e0)) if exact else all(np.allclose(list(x.values()),list(y.values()),rtol=1e-9,atol=1e-9,equal_nan=True) for x,y in zip(e,e0))
            if not ok: bad.setdefault((ln,nn),[]).append(comp)
print("C06 runs",runs,"skipped",skipped,f"{time.time()-t0:.0f}s")
for k,v in bad.items(): print(k,len(v),v[:2])

# C14
def b1(a,r): return r>=2
def b2(a,r): return r>={1:1,2:5,3:2}[a]
def b3(a,r): return r<=0
rewN=[0,2,5,1,2]
NPS2 = {"none":None,"rad":NP.Radius(1.0),"knn":NP.KNearest(2),"lsh":NP.LSHNearest(2,2),"clu":NP.Clusters(2),"tree":NP.TreeBandit()}
bad={}; runs=0
for nn,npol in NPS2.items():
    cf = nn=="none"
    for bn,bz in (("ge2",b1),("thr",b2),("le0",b3)):
        for comp in compositions(5):
            if nn=="clu" and comp[0][1]<2: continue
            for with_add in (False,True):
                a=MAB([1,2],LP.ThompsonSampling(bz),npol,seed=5); b=MAB([1,2],LP.ThompsonSampling(),npol,seed=5)
                try:
                    for i,(s,e) in enumerate(comp):
                        for m,rw in ((a,rewN[s:e]),(b,[int(bz(d,r)) for d,r in zip(dec[s:e],rewN[s:e])])):
                            f=m.fit if i==0 else m.partial_fit
                            (f(dec[s:e],rw) if cf else f(dec[s:e],rw,X[s:e]))
                    if with_add:
                        a.add_arm(3,b3); b.add_arm(3)
                        d3=[3,1,3]; r3=[0,5,2]; x3=[[1,1],[0,0],[2,2]]
                        (a.partial_fit(d3,r3) if cf else a.partial_fit(d3,r3,x3))
                        rb=[int(b3(d,r)) for d,r in zip(d3,r3)]
                        (b.partial_fit(d3,rb) if cf else b.partial_fit(d3,rb,x3))
                    ea=a.predict_expectations(None if cf else Q); eb=b.predict_expectations(None if cf else Q)
                except Exception as ex:
                    bad.setdefault((nn,"EXC",type(ex).__name__,str(ex)[:40],with_add),[]).append(comp); continue
                runs+=1
                if repr(ea)!=repr(eb): bad.setdefault((nn,bn,"add" if with_add else "noadd"),[]).append(comp)
print("C14 runs",runs)
for k,v in bad.items(): print(k,len(v))
