import warnings; warnings.filterwarnings("ignore")
import sys, threading, dis, time, copy, pickle
import numpy as np
from mabwiser.mab import MAB, LearningPolicy as LP, NeighborhoodPolicy as NP
exec(open("proto_sched.py").read().split("def explore(")[0].split('import mabwiser.base_mab')[0])  # imports only
src=open("proto_sched.py").read()
start=src.index("SHARED_OPS"); end=src.index("def explore(")
exec(src[start:end])
SHARED_OPS.discard("LOAD_GLOBAL")

def explore_thunks(make, bound, cap=None):
    stats={"schedules":0,"outcomes":{}, "points":0}
    stack=[[]]
    while stack:
        prefix=stack.pop()
        thunks, finish = make()
        s=Sched(thunks,prefix); res=s.run()
        for e in s.exc:
            if e: raise e
        stats["schedules"]+=1; stats["points"]=max(stats["points"],len(s.points))
        o=finish(res); stats["outcomes"][o]=stats["outcomes"].get(o,0)+1
        pre=0; pres=[]
        for (order,run_en),c in zip(s.points,s.choices):
            pres.append(pre)
            if run_en and c!=0: pre+=1
        for i in range(len(prefix), len(s.points)):
            order,run_en=s.points[i]
            cost=pres[i]+(1 if run_en else 0)
            if cost>bound: continue
            for alt in range(1,len(order)):
                stack.append(s.choices[:i]+[alt])
        if cap and stats["schedules"]>=cap: stats["capped"]=True; break
    return stats

X = [[0,0],[0,1],[1,0],[1,1],[2,0],[0,2]]; dec=[1,2,1,2,1,2]; rew=[1,0,1,1,0,1]
Q = np.array([[0,0],[1,1],[2,2],[0,1]])
for name,lp,npol in [("Radius+TS",LP.ThompsonSampling(),NP.Radius(1.0)),("TreeBandit+TS",LP.ThompsonSampling(),NP.TreeBandit()),("TreeBandit+UCB",LP.UCB1(),NP.TreeBandit()),("LSH+EG",LP.EpsilonGreedy(0.5),NP.LSHNearest(2,2)),("Clusters+SM",LP.Softmax(),NP.Clusters(2))]:
    base=MAB([1,2],lp,npol,seed=5); base.fit(dec,rew,X)
    seeds=np.arange(100,104)
    seq = repr(copy.deepcopy(base)._imp._predict_contexts(Q,False,seeds,0))
    def make():
        m=copy.deepcopy(base); imp=m._imp
        th=[lambda: imp._predict_contexts(Q[0:2],False,seeds[0:2],0), lambda: imp._predict_contexts(Q[2:4],False,seeds[2:4],2)]
        return th, (lambda res: repr(res[0]+res[1])==seq)
    for b in (0,1,2):
        t=time.time(); st=explore_thunks(make,b,cap=20000); dt=time.time()-t
        print(f"{name:15s} bound {b} schedules {st['schedules']:6d} points {st['points']:4d} outcomes(equal-to-sequential) {st['outcomes']} {dt:.1f}s", "CAPPED" if st.get("capped") else "")
