import warnings; warnings.filterwarnings("ignore")
import os; os.environ["OMP_NUM_THREADS"]="1"
import numpy as np, copy, itertools, time
from mabwiser.mab import MAB, LearningPolicy as LP, NeighborhoodPolicy as NP
LPS = {"eg0":LP.EpsilonGreedy(0),"eg5":LP.EpsilonGreedy(.5),"ucb":LP.UCB1(1),"sm":LP.Softmax(),"ts":LP.ThompsonSampling(),"pop":LP.Popularity(),"rnd":LP.Random(),
       "lg":LP.LinGreedy(0.3),"lucb":LP.LinUCB(),"lts":LP.LinTS()}
NPS = {"none":None,"rad":NP.Radius(1.0),"knn":NP.KNearest(2),"lsh":NP.LSHNearest(2,2),"clu":NP.Clusters(2),"tree":NP.TreeBandit()}
def combos():
    for ln,l in LPS.items():
        for nn,n in NPS.items():
            if nn=="tree" and ln not in ("eg0","eg5","ucb","ts"): continue
            yield ln,nn,l,n
LAB = {"int":{1:1,2:2,3:3}, "str":{1:"a",2:"b",3:"c"}, "float":{1:1.5,2:2.5,3:0.25}}
Q3=[[0,0],[1,1],[5,5]]
bad={}; states=0; trans=0; t0=time.time()
for ln,nn,l,npol in combos():
    cf = nn=="none" and ln not in ("lg","lucb","lts")
    for lt,L in LAB.items():
        m0=MAB([L[1],L[2]],l,npol,seed=5)
        frontier=[(m0,(),set())]
        for depth in range(3):
            nxt=[]
            for m,h,removed in frontier:
                arms=list(m.arms)
                ops=[]
                d=[arms[i%len(arms)] for i in range(3)]; X=[[0,0],[1,1],[0,1]]
                ops.append(("fit",d,[1,0,1],X)); ops.append(("pfit",d[:2],[0,1],X[:2]))
                if L[3] not in arms: ops.append(("add",L[3]))
                for r in removed:
                    if r not in arms: ops.append(("add",r))
                if len(arms)>1: ops += [("rm",a) for a in arms]
                if nn=="none" and ln!="rnd" and len(arms)>=2: ops.append(("ws",{a:[1,i] for i,a in enumerate(arms)},1.0))
                for op in ops:
                    m2=copy.deepcopy(m); rem2=set(removed)
                    try:
                        if op[0] in("fit","pfit"):
                            f=m2.fit if op[0]=="fit" else m2.partial_fit
                            (f(op[1],op[2]) if cf else f(op[1],op[2],op[3]))
                        elif op[0]=="add": m2.add_arm(op[1])
                        elif op[0]=="rm": m2.remove_arm(op[1]); rem2.add(op[1])
                        elif op[0]=="ws": m2.warm_start(op[1],op[2])
                    except Exception as ex:
                        bad.setdefault(("OP-EXC",op[0],type(ex).__name__,str(ex)[:40]),[]).append((ln,nn,lt,h)); continue
                    trans+=1; h2=h+(op[0],)
                    if m2._is_initial_fit:
                        for mq in ((None,1,2,3) if cf else (1,2,3)):
                            q=None if mq is None else Q3[:mq]
                            try:
                                a=copy.deepcopy(m2); b=copy.deepcopy(m2)
                                p=a.predict(q); e=b.predict_expectations(q)
                            except Exception as ex:
                                bad.setdefault(("Q-EXC",type(ex).__name__,str(ex)[:50]),[]).append((ln,nn,lt,h2,mq)); continue
                            single = mq in (None,1)
                            if single != (not isinstance(p,list)) or single != isinstance(e,dict): bad.setdefault("SHAPE",[]).append((ln,nn,lt,h2,mq)); continue
                            P=[p] if single else p; E=[e] if single else e
                            if len(P)!=(1 if single else mq) or len(E)!=len(P): bad.setdefault("LEN",[]).append((ln,nn,lt,h2,mq))
                            for pi,ei in zip(P,E):
                                if pi not in m2.arms or type(pi)!=type(m2.arms[0]): bad.setdefault("PRED-NOT-ARM",[]).append((ln,nn,lt,h2,mq,pi))
                                if list(ei.keys())!=list(m2.arms): bad.setdefault("KEYS",[]).append((ln,nn,lt,h2,mq,list(ei),list(m2.arms)))
                                vals=list(ei.values())
                                if not any(v!=v for v in vals) and not (ln=="eg5" and nn=="tree"):
                                    if pi!=max(ei,key=ei.get): bad.setdefault("ARGMAX",[]).append((ln,nn,lt,h2,mq,pi,ei))
                    nxt.append((m2,h2,rem2))
            frontier=nxt; states+=len(nxt)
print("states",states,"transitions",trans,f"{time.time()-t0:.0f}s")
for k,v in bad.items(): print(k,len(v),v[:2])
