import warnings; warnings.filterwarnings("ignore")
import numpy as np
from sklearn.tree import DecisionTreeRegressor
from mabwiser.mab import MAB, LearningPolicy as LP, NeighborhoodPolicy as NP
X = [[0,0,0],[0,0,0],[1,1,1],[1,1,1]]; dec=[1,1,1,1]; rew=[0,0,1,1]
Q = [[1,0,0],[0,1,0],[0,0,1]]
def choice(seed): return int(DecisionTreeRegressor(random_state=seed).fit(X,rew).tree_.feature[0])
print({s:choice(s) for s in range(12)})
def merges(a,b):
    if not a: yield list(b); return
    if not b: yield list(a); return
    for r in merges(a[1:],b): yield [a[0]]+r
    for r in merges(a,b[1:]): yield [b[0]]+r
for s in (7,100,12345):
    i = next(j for j in range(s+1,s+50) if choice(j)!=choice(s))
    for share in ("same-tuple","default-tuples","user-dict"):
        def script(mg):
            npt = NP.TreeBandit({"max_depth":3}) if share=="user-dict" else NP.TreeBandit()
            env={}; out=[]
            for who,k in mg:
                if who=="S":
                    if k==0: env["s"]=MAB([1,2],LP.EpsilonGreedy(0),npt,seed=s)
                    elif k==1: env["s"].fit(dec,rew,X)
                    elif k==2: out.append(repr(env["s"].predict_expectations(Q)))
                else:
                    if k==0: env["i"]=MAB([1,2],LP.EpsilonGreedy(0),(npt if share!="default-tuples" else NP.TreeBandit()),seed=i)
                    elif k==1: env["i"].fit(dec,rew,X)
            return out
        solo=script([("S",k) for k in range(3)])
        badm=[ "".join(w for w,_ in mg) for mg in merges([("S",k) for k in range(3)],[("I",k) for k in range(2)]) if script(mg)!=solo]
        print("seed",s,"interferer",i,share,"violating merges:",badm)
