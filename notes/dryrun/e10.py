import warnings; warnings.filterwarnings("ignore")
import numpy as np, pandas as pd, copy, pickle, itertools
from mabwiser.mab import MAB, LearningPolicy as LP, NeighborhoodPolicy as NP

X = [[0,0],[0,1],[1,0],[1,1],[2,0],[0,2]]
dec=[1,2,1,2,1,2]; rew=[1,0,1,1,0,1]
Q = [[0,0],[1,1],[2,2]]
LPS = {"eg0":LP.EpsilonGreedy(0),"eg5":LP.EpsilonGreedy(.5),"ucb":LP.UCB1(1),"sm":LP.Softmax(),"ts":LP.ThompsonSampling(),"pop":LP.Popularity(),"rnd":LP.Random(),
       "lg":LP.LinGreedy(0),"lucb":LP.LinUCB(),"lts":LP.LinTS()}
NPS = {"none":None,"rad":NP.Radius(1.0),"knn":NP.KNearest(2),"lsh":NP.LSHNearest(2,2),"clu":NP.Clusters(2),"tree":NP.TreeBandit()}
def combos():
    for ln,l in LPS.items():
        for nn,n in NPS.items():
            if nn=="tree" and ln not in ("eg0","eg5","ucb","ts"): continue
            yield ln,nn,l,n
def ctxfree(ln,nn): return nn=="none" and ln not in ("lg","lucb","lts")
big = np.zeros((12,4)); big[::2,::2]=X
DEC = {"list":lambda: list(dec), "nd":lambda: np.array(dec), "ndf":lambda: np.array(dec,dtype=float), "ser":lambda: pd.Series(dec), "ser_idx": lambda: pd.Series(dec,index=range(10,16))}
REW = {"list":lambda: list(rew), "listf":lambda:[float(r) for r in rew], "nd":lambda: np.array(rew), "ndf":lambda: np.array(rew,dtype=float), "ser":lambda: pd.Series(rew)}
CTX = {"list":lambda x: [list(r) for r in x], "ndC":lambda x: np.array(x), "ndF":lambda x: np.asfortranarray(np.array(x)), "ndfloat":lambda x: np.array(x,dtype=float),
       "view":lambda x: (lambda b: b[::2,::2])(np.kron(np.array(x), np.array([[1,7],[7,7]]))), "T":lambda x: np.array(x).T.copy().T, "df":lambda x: pd.DataFrame(x), "df_idx": lambda x: pd.DataFrame(x, index=range(5,5+len(x)), columns=["a","b"])}
def snap(o):
    if isinstance(o,(pd.Series,pd.DataFrame)): return (o.values.tobytes(), str(o.dtypes), tuple(o.index))
    if isinstance(o,np.ndarray): return (o.tobytes(), str(o.dtype), o.shape, o.flags['C_CONTIGUOUS'], o.flags['F_CONTIGUOUS'])
    return repr(o)
bad={}
for ln,nn,l,n in combos():
    cf = ctxfree(ln,nn)
    base=None
    axes = [("dec",k) for k in DEC]+[("rew",k) for k in REW]+([] if cf else [("ctx",k) for k in CTX]+[("q",k) for k in CTX])
    for axis,kind in [("base","list")]+axes:
        d = DEC[kind]() if axis=="dec" else DEC["list"]()
        r = REW[kind]() if axis=="rew" else REW["list"]()
        c = None if cf else (CTX[kind](X) if axis=="ctx" else CTX["list"](X))
        q = None if cf else (CTX[kind](Q) if axis=="q" else CTX["list"](Q))
        s0 = [snap(o) for o in (d,r,c,q)]
        m = MAB([1,2], l, n, seed=11)
        try:
            m.fit(d,r,c) if not cf else m.fit(d,r)
            o = repr((m.predict(q), m.predict_expectations(q)))
        except Exception as ex:
            o = "EXC "+type(ex).__name__+str(ex)[:40]
        if [snap(x) for x in (d,r,c,q)]!=s0: bad.setdefault("INPUT-MODIFIED",[]).append((ln,nn,axis,kind))
        if base is None: base=o
        elif o!=base: bad.setdefault(("DIFF",axis,kind),[]).append((ln,nn, o[:80] if o.startswith("EXC") else ""))
for k,v in bad.items(): print(k,len(v),v[:4])
