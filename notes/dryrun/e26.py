import warnings; warnings.filterwarnings("ignore")
import os; os.environ["OMP_NUM_THREADS"]="1"
import numpy as np, copy, itertools, time
from mabwiser.mab import MAB, LearningPolicy as LP, NeighborhoodPolicy as NP
X = [[0,0],[0,1],[1,0],[1,1]]; dec=[1,1,2,2]; rew=[1,0.5,2,-1]
Q = [[0,0],[1,1],[2,2]]
LPS = {"eg0":LP.EpsilonGreedy(0),"ucb":LP.UCB1(1),"sm":LP.Softmax(),"ts":LP.ThompsonSampling(),"pop":LP.Popularity(),
       "lg":LP.LinGreedy(0.0),"lucb":LP.LinUCB(),"lts":LP.LinTS(alpha=1e-9)}
NPS = {"none":None,"rad":NP.Radius(1.0),"lsh":NP.LSHNearest(2,2)}
bad={}; runs=0
for ln,l in LPS.items():
    for nn,npol in NPS.items():
        cf = nn=="none" and ln not in ("lg","lucb","lts")
        R = [1,0,1,1] if ln=="ts" else [1,0.5,2,3] if ln=="pop" else rew
        def run(perm):
            m=MAB([1,2],l,npol,seed=5)
            d=[dec[i] for i in perm]; r=[R[i] for i in perm]; x=[X[i] for i in perm]
            (m.fit(d,r) if cf else m.fit(d,r,x))
            e=m.predict_expectations(None if cf else Q); return e if isinstance(e,list) else [e]
        e0=run(range(4))
        for perm in itertools.permutations(range(4)):
            e=run(perm); runs+=1
            if not all(list(a)==list(b) and np.allclose(list(a.values()),list(b.values()),rtol=1e-9,atol=1e-9,equal_nan=True) for a,b in zip(e,e0)):
                bad.setdefault(("perm",ln,nn),[]).append(perm)
print("perm runs",runs, {k:len(v) for k,v in bad.items()})
# shift / scale laws
bad={}
for c in (-3,0.5,10):
    for ln,l in (("eg0",LP.EpsilonGreedy(0)),("ucb",LP.UCB1(1)),("sm",LP.Softmax(0.7))):
        a=MAB([1,2],l,seed=1); a.fit(dec,rew); b=MAB([1,2],l,seed=1); b.fit(dec,[r+c for r in rew])
        ea,eb=a._imp.arm_to_expectation,b._imp.arm_to_expectation
        for arm in (1,2):
            want = ea[arm] if ln=="sm" else ea[arm]+c
            if abs(eb[arm]-want)>1e-9*max(1,abs(want)): bad.setdefault(("shift",ln,c),[]).append((arm,eb[arm],want))
for c in (-2,0.5,3):
    a=MAB([1,2],LP.LinGreedy(0,0.5),seed=1); a.fit(dec,rew,X); b=MAB([1,2],LP.LinGreedy(0,0.5),seed=1); b.fit(dec,[r*c for r in rew],X)
    for ea,eb in zip(a.predict_expectations(Q),b.predict_expectations(Q)):
        for arm in (1,2):
            if abs(eb[arm]-c*ea[arm])>1e-9*max(1,abs(c*ea[arm])): bad.setdefault(("scale",c),[]).append((arm,))
print("laws", bad if bad else "hold")
