import warnings; warnings.filterwarnings("ignore")
import numpy as np, copy, pickle, itertools, traceback
from mabwiser.mab import MAB, LearningPolicy as LP, NeighborhoodPolicy as NP

X = [[0,0],[0,1],[1,0],[1,1],[2,0],[0,2]]
dec=[1,2,1,2,1,2]; rew=[1,0,1,1,0,1]
Q = [[0,0],[1,1],[2,2]]
LPS = {"eg0":LP.EpsilonGreedy(0),"eg5":LP.EpsilonGreedy(.5),"ucb":LP.UCB1(1),"sm":LP.Softmax(),"ts":LP.ThompsonSampling(),"pop":LP.Popularity(),"rnd":LP.Random(),
       "lg":LP.LinGreedy(0),"lucb":LP.LinUCB(),"lts":LP.LinTS()}
NPS = {"none":None,"rad":NP.Radius(1.0),"knn":NP.KNearest(2),"lsh":NP.LSHNearest(2,2),"clu":NP.Clusters(2),"tree":NP.TreeBandit()}
def combos():
    for ln,l in LPS.items():
        for nn,n in NPS.items():
            if nn=="tree" and ln not in ("eg0","eg5","ucb","ts"): continue
            yield ln,nn,l,n
def ctxfree(ln,nn): return nn=="none" and ln not in ("lg","lucb","lts")
def S(x):
    return repr(x)
print("== C09 predict == argmax(expectations) from same state; C19 pickle; C06 chunk vs batch")
for ln,nn,l,n in combos():
    cf = ctxfree(ln,nn)
    m = MAB([1,2], l, n, seed=11)
    (m.fit(dec,rew) if cf else m.fit(dec,rew,X))
    a,b = copy.deepcopy(m), copy.deepcopy(m)
    p = a.predict(None if cf else Q); e = b.predict_expectations(None if cf else Q)
    if cf: p=[p]; e=[e]
    bad=[]
    for pi,ei in zip(p,e):
        vals=list(ei.values())
        if any(v!=v for v in vals): continue
        if pi != max(ei, key=ei.get): bad.append((pi,ei))
    c09 = "ok" if not bad else "C09-MISMATCH"
    # pickle
    try:
        r = pickle.loads(pickle.dumps(m)); c19 = "ok" if S(r.predict_expectations(None if cf else Q))==S(copy.deepcopy(m).predict_expectations(None if cf else Q)) else "C19-MISMATCH"
    except Exception as ex: c19="C19-EXC "+type(ex).__name__
    # chunked
    m2 = MAB([1,2], l, n, seed=11)
    try:
        if cf: m2.fit(dec[:3],rew[:3]); m2.partial_fit(dec[3:4],rew[3:4]); m2.partial_fit(dec[4:],rew[4:])
        else: m2.fit(dec[:3],rew[:3],X[:3]); m2.partial_fit(dec[3:4],rew[3:4],X[3:4]); m2.partial_fit(dec[4:],rew[4:],X[4:])
        e1 = m.predict_expectations(None if cf else Q); e2 = m2.predict_expectations(None if cf else Q)
        if cf: e1=[e1]; e2=[e2]
        ok = all(np.allclose(list(x.values()), list(y.values()), rtol=1e-9, atol=1e-12, equal_nan=True) for x,y in zip(e1,e2))
        c06 = "ok" if ok else "C06-MISMATCH"
    except Exception as ex: c06 = "C06-EXC "+type(ex).__name__+str(ex)[:50]
    print(f"{ln:5s}{nn:5s} {c09:14s} {c19:14s} {c06}")
