import warnings; warnings.filterwarnings("ignore")
import logging, time
import numpy as np, copy, pickle
from mabwiser.mab import MAB, LearningPolicy as LP, NeighborhoodPolicy as NP
from mabwiser.simulator import Simulator
logging.disable(logging.CRITICAL)

rs = np.random.RandomState(0)
n=12
X = rs.randint(0,4,size=(n,2)); dec = rs.randint(1,3,size=n); rew = rs.randint(0,5,size=n)
def replay(mab, tr, te, batch):
    m = copy.deepcopy(mab)
    m.fit(dec[tr], rew[tr], X[tr])
    if batch==0: return m.predict(X[te])
    out=[]
    for s in range(0,len(te),batch):
        b = te[s:s+batch]
        p = m.predict(X[b]); out += p if isinstance(p,list) else [p]
        m.partial_fit(dec[b], rew[b], X[b])
    return out
for batch in (0,2):
  for order in ([("r_euc",NP.Radius(2.0,"euclidean")),("r_cb",NP.Radius(2.0,"cityblock"))], [("r_cb",NP.Radius(2.0,"cityblock")),("r_euc",NP.Radius(2.0,"euclidean"))],
                [("k_euc",NP.KNearest(3,"euclidean")),("k_cheb",NP.KNearest(3,"chebyshev"))]):
    bandits = [(nm, MAB([1,2], LP.EpsilonGreedy(0), npol, seed=3)) for nm,npol in order]
    orig = {nm: copy.deepcopy(m) for nm,m in bandits}
    t=time.time()
    sim = Simulator(bandits, dec, rew, X, test_size=0.34, is_ordered=True, batch_size=batch, seed=1)
    sim.run()
    dt=time.time()-t
    te = np.array(sim.test_indices); tr = np.array([i for i in range(n) if i not in set(te)])
    for nm,_ in order:
        rp = replay(orig[nm], tr, te, batch)
        print(batch, nm, "sim", sim.bandit_to_predictions[nm], "api", rp, "OK" if list(sim.bandit_to_predictions[nm])==list(rp) else "MISMATCH", f"{dt*1000:.0f}ms")
