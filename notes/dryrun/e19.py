import warnings; warnings.filterwarnings("ignore")
import numpy as np, copy, math, time, itertools
from fractions import Fraction as F
from mabwiser.mab import MAB, LearningPolicy as LP
EPS=np.finfo(float).eps
def ops(arms, removed, R):
    out=[]
    singles=[((a,),(r,)) for a in arms for r in R]
    pairs=[((a,b),(R[-1],R[0])) for a in arms for b in arms]
    for kind in ("fit","partial_fit"):
        for d,r in singles+pairs: out.append((kind,d,r))
    if len(arms)<3:
        for x in [3]+sorted(removed):
            if x not in arms: out.append(("add",x))
    if len(arms)>1:
        for a in arms: out.append(("remove",a))
    return out
def apply(m, ref, op):
    if op[0] in ("fit","partial_fit"):
        getattr(m,op[0])(list(op[1]),list(op[2]))
        if op[0]=="fit" or not ref["fitted"]:
            ref["stat"]={a:(F(0),0) for a in ref["stat"]}; ref["N"]=0; ref["fitted"]=True
        for a,r in zip(op[1],op[2]):
            s,c=ref["stat"][a]; ref["stat"][a]=(s+F(r),c+1)
        ref["N"]+=len(op[1])
    elif op[0]=="add": m.add_arm(op[1]); ref["stat"][op[1]]=(F(0),0); ref["removed"].discard(op[1])
    else: m.remove_arm(op[1]); ref["stat"].pop(op[1]); ref["removed"].add(op[1])
def expected(kind, par, ref):
    st=ref["stat"]; means={a:(float(s/c) if c else 0.0) for a,(s,c) in st.items()}
    if kind=="eg": return means
    if kind=="ucb": return {a:(means[a]+par*math.sqrt(2*math.log(ref["N"])/c) if c else 0.0) for a,(s,c) in st.items()}
    if kind=="sm":
        mx=max(means.values()); ex={a:math.exp((v-mx)/par) for a,v in means.items()}; t=sum(ex.values()); return {a:v/t for a,v in ex.items()}
    if kind=="pop":
        t=sum(means.values()); 
        return {a:(1.0/len(means) if t==0 else v/t) for a,v in means.items()}
    if kind=="ts": return {a:(1+int(s),1+c-int(s)) for a,(s,c) in st.items()}
def observe(kind, m):
    imp=m._imp
    if kind=="ts": return {a:(int(imp.arm_to_success_count[a]),int(imp.arm_to_fail_count[a])) for a in m.arms}
    return dict(imp.arm_to_expectation)
def sampler_ok(kind, par, m):
    st=copy.deepcopy(m._rng.rng.bit_generator.state); g=np.random.default_rng(0); g.bit_generator.state=st
    imp=m._imp; arms=list(m.arms)
    mm=copy.deepcopy(m); out=mm.predict_expectations()
    if kind=="eg":
        want = {a:g.random() for a in arms} if g.random()<par else dict(imp.arm_to_expectation)
    elif kind in("sm","pop"): want=dict(zip(arms, g.dirichlet([v+EPS for v in imp.arm_to_expectation.values()],1)[0]))
    elif kind=="ts": want={a:g.beta(imp.arm_to_success_count[a],imp.arm_to_fail_count[a],1)[0] for a in arms}
    elif kind=="rnd": want=dict(zip(arms,g.random((1,len(arms)))[0]))
    else: want=dict(imp.arm_to_expectation)
    return list(out)==arms and all(out[a]==want[a] for a in arms)
CFG=[("pop",None,LP.Popularity(),[0,1,3])]
for kind,par,lp,R in CFG:
    t=time.time(); depth=3
    m0=MAB([1,2], lp, seed=5); ref0={"stat":{1:(F(0),0),2:(F(0),0)},"N":0,"fitted":False,"removed":set()}
    frontier=[(m0,ref0,0,())]; trans=0; bad={}; seen=set()
    while frontier:
        nxt=[]
        for m,ref,d,h in frontier:
            if d==depth: continue
            for op in ops(m.arms, ref["removed"], R):
                m2=copy.deepcopy(m); ref2=copy.deepcopy(ref)
                try: apply(m2,ref2,op)
                except Exception as ex:
                    bad.setdefault(("EXC",type(ex).__name__,str(ex)[:40]),[]).append(h+(op,)); continue
                trans+=1; h2=h+(op,)
                if ref2["fitted"]:
                    if kind!="rnd":
                        want=expected(kind,par,ref2); got=observe(kind,m2)
                        ok = list(got)==list(m2.arms) and all((got[a]==want[a]) if kind=="ts" else abs(got[a]-want[a])<=1e-9*max(1,abs(want[a])) for a in want)
                        if not ok:
                            sig = "omit" if any(o[0]=="partial_fit" and set(o[1])!=set(m2.arms) for o in h2) else "other"
                            bad.setdefault(("STAT",sig),[]).append((h2,got,want))
                    if not sampler_ok(kind,par,m2): bad.setdefault("SAMPLER",[]).append(h2)
                key=(repr(sorted(ref2["stat"].items())),ref2["N"],ref2["fitted"],tuple(m2.arms),tuple(sorted(ref2["removed"])), repr(observe(kind,m2)) if kind!="rnd" else "")
                if key not in seen: seen.add(key); nxt.append((m2,ref2,d+1,h2))
        frontier=nxt
    print(kind, "other:"); [print("  ",w[0], {k:float(v) for k,v in w[1].items()}, w[2]) for w in bad.get(("STAT","other"),[])]
