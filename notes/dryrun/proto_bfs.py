import warnings; warnings.filterwarnings("ignore")
import os; os.environ.setdefault("OMP_NUM_THREADS","1")
import numpy as np, copy, pickle, hashlib, time, itertools
from fractions import Fraction
from mabwiser.mab import MAB, LearningPolicy as LP, NeighborhoodPolicy as NP

def canon(m): return hashlib.blake2b(pickle.dumps(m, protocol=4), digest_size=16).digest()
R = [-1.5, 0, 2]
def ops(arms, removed):
    out=[]
    singles=[((a,),(r,)) for a in arms for r in R]
    pairs=[((a,b),(2,0)) for a in arms for b in arms]
    for kind in ("fit","partial_fit"):
        for d,r in singles+pairs: out.append((kind,d,r))
    if len(arms)<3:
        for x in [3]+sorted(removed): 
            if x not in arms: out.append(("add",x))
    if len(arms)>1:
        for a in arms: out.append(("remove",a))
    return out
def apply(m, ref, op):
    if op[0] in ("fit","partial_fit"):
        getattr(m,op[0])(list(op[1]),list(op[2]))
        if op[0]=="fit" or not ref["fitted"]:
            ref["stat"]={a:(Fraction(0),0) for a in ref["stat"]}; ref["N"]=0; ref["fitted"]=True
        for a,r in zip(op[1],op[2]):
            s,c=ref["stat"][a]; ref["stat"][a]=(s+Fraction(r),c+1)
        ref["N"]+=len(op[1])
    elif op[0]=="add": m.add_arm(op[1]); ref["stat"][op[1]]=(Fraction(0),0); ref["removed"].discard(op[1])
    else: m.remove_arm(op[1]); ref["stat"].pop(op[1]); ref["removed"].add(op[1])
def check(m,ref):
    if not ref["fitted"]: return True
    e=m._imp.arm_to_expectation
    for a,(s,c) in ref["stat"].items():
        want = float(s/c) if c else 0.0
        if abs(e[a]-want)>1e-9*max(1,abs(want)): return False
    return list(e)==m.arms
for depth in (2,3,4):
    t=time.time()
    m0=MAB([1,2], LP.EpsilonGreedy(0), seed=5); ref0={"stat":{1:(Fraction(0),0),2:(Fraction(0),0)},"N":0,"fitted":False,"removed":set()}
    seen={(canon(m0), repr(sorted(ref0["stat"].items())))}; frontier=[(m0,ref0,0)]; trans=0; bad=0
    while frontier:
        nxt=[]
        for m,ref,d in frontier:
            if d==depth: continue
            for op in ops(m.arms, ref["removed"]):
                m2=copy.deepcopy(m); ref2=copy.deepcopy(ref)
                apply(m2,ref2,op); trans+=1
                if not check(m2,ref2): bad+=1
                k=(canon(m2), repr(sorted(ref2["stat"].items())))
                if k not in seen: seen.add(k); nxt.append((m2,ref2,d+1))
        frontier=nxt
    print("depth",depth,"states",len(seen),"transitions",trans,"bad",bad,f"{time.time()-t:.1f}s")
