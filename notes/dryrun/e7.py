import warnings; warnings.filterwarnings("ignore")
import numpy as np, pandas as pd, copy, pickle, itertools, traceback
from mabwiser.mab import MAB, LearningPolicy as LP, NeighborhoodPolicy as NP

X = [[0,0],[0,1],[1,0],[1,1],[2,0],[0,2]]
dec=[1,2,1,2,1,2]; rew=[1,0,1,1,0,1]
Q = [[0,0],[1,1],[2,2]]
LPS = {"eg0":LP.EpsilonGreedy(0),"ucb":LP.UCB1(1),"sm":LP.Softmax(),"ts":LP.ThompsonSampling(),"pop":LP.Popularity(),
       "lg":LP.LinGreedy(0),"lucb":LP.LinUCB(),"lts":LP.LinTS()}
NPS = {"none":None,"rad":NP.Radius(1.0),"knn":NP.KNearest(2),"lsh":NP.LSHNearest(2,2),"clu":NP.Clusters(2),"tree":NP.TreeBandit()}
def combos():
    for ln,l in LPS.items():
        for nn,n in NPS.items():
            if nn=="tree" and ln not in ("eg0","ucb","ts"): continue
            yield ln,nn,l,n
def ctxfree(ln,nn): return nn=="none" and ln not in ("lg","lucb","lts")

def invalid_calls(cf):
    c = (lambda *a: a)
    bad_ctx3 = [[0,0,0],[1,1,1]]
    calls = {
     "fit_len_mismatch": lambda m: m.fit([1,2],[1]) if cf else m.fit([1,2],[1],[[0,0],[1,1]]),
     "pfit_len_mismatch": lambda m: m.partial_fit([1,2],[1]) if cf else m.partial_fit([1,2],[1],[[0,0],[1,1]]),
     "pfit_nan_reward": lambda m: m.partial_fit([1,2],[1,np.nan]) if cf else m.partial_fit([1,2],[1,np.nan],[[0,0],[1,1]]),
     "pfit_inf_reward": lambda m: m.partial_fit([1,2],[1,np.inf]) if cf else m.partial_fit([1,2],[1,np.inf],[[0,0],[1,1]]),
     "pfit_none_reward": lambda m: m.partial_fit([1,2],[1,None]) if cf else m.partial_fit([1,2],[1,None],[[0,0],[1,1]]),
     "pfit_tuple_dec": lambda m: m.partial_fit((1,2),[1,1]) if cf else m.partial_fit((1,2),[1,1],[[0,0],[1,1]]),
     "pfit_ctx_presence": lambda m: m.partial_fit([1,2],[1,1],[[0,0],[1,1]]) if cf else m.partial_fit([1,2],[1,1]),
     "fit_ctx_presence": lambda m: m.fit([1,2],[1,1],[[0,0],[1,1]]) if cf else m.fit([1,2],[1,1]),
     "pfit_ctx_len": (lambda m: m.partial_fit([1,2],[1,1],[[0,0]])) if not cf else None,
     "pfit_ctx_1d": (lambda m: m.partial_fit([1,2],[1,1],[0,0])) if not cf else None,
     "pfit_ctx_cols": (lambda m: m.partial_fit([1,2],[1,1],bad_ctx3)) if not cf else None,
     "pfit_ctx_cols_rev": (lambda m: m.partial_fit([2,1],[1,1],bad_ctx3)) if not cf else None,
     "predict_ctx_cols": (lambda m: m.predict(bad_ctx3)) if not cf else None,
     "expect_ctx_cols": (lambda m: m.predict_expectations(bad_ctx3)) if not cf else None,
     "predict_no_ctx": (lambda m: m.predict()) if not cf else None,
     "predict_1d": (lambda m: m.predict([0,0])) ,
     "add_dup": lambda m: m.add_arm(1),
     "add_none": lambda m: m.add_arm(None),
     "add_nan": lambda m: m.add_arm(np.nan),
     "add_inf": lambda m: m.add_arm(np.inf),
     "add_binz_nonTS": lambda m: m.add_arm(9, lambda a,r: r>0),
     "add_binz_notcallable": lambda m: m.add_arm(9, 5),
     "remove_unknown": lambda m: m.remove_arm(77),
     "remove_none": lambda m: m.remove_arm(None),
     "ws_notdict": lambda m: m.warm_start([1,2], 0.5),
     "ws_q_int": lambda m: m.warm_start({1:[1,0],2:[0,1]}, 1),
     "ws_q_range": lambda m: m.warm_start({1:[1,0],2:[0,1]}, 1.5),
     "ws_missing_arm": lambda m: m.warm_start({1:[1,0]}, 0.5),
     "ws_allzero": lambda m: m.warm_start({1:[0,0],2:[0,0]}, 0.5),
     "ws_ragged": lambda m: m.warm_start({1:[1,0],2:[0,1,1]}, 0.5),
     "pfit_str_reward": lambda m: m.partial_fit([1,2],["a","b"]) if cf else m.partial_fit([1,2],["a","b"],[[0,0],[1,1]]),
     "pfit_ts_nonbinary": lambda m: m.partial_fit([1,2],[1,2]) if cf else m.partial_fit([1,2],[1,2],[[0,0],[1,1]]),
    }
    return {k:v for k,v in calls.items() if v is not None}

def run_cont(m, cf):
    out=[]
    try:
        if cf: m.partial_fit([2,1],[1,0]); out.append(repr(m.predict_expectations()))
        else: m.partial_fit([2,1],[1,0],[[1,1],[0,0]]); out.append(repr(m.predict_expectations(Q)))
        out.append(repr(m.arms))
    except Exception as ex:
        out.append("EXC "+type(ex).__name__+": "+str(ex)[:60])
    return out
report = {}
for ln,nn,l,n in combos():
    cf = ctxfree(ln,nn)
    for stage in ("fitted","fitted_with_cold_arm"):
        for name, call in invalid_calls(cf).items():
            if name=="pfit_ts_nonbinary" and ln!="ts": continue
            m = MAB([1,2], l, n, seed=11)
            (m.fit(dec,rew) if cf else m.fit(dec,rew,X))
            if stage=="fitted_with_cold_arm": m.add_arm(0); m.arms  # cold arm, listed last
            twin = copy.deepcopy(m)
            try:
                call(m); rejected=False
            except Exception as ex:
                rejected=True; et=type(ex).__name__
            if not rejected: 
                report.setdefault(("NOT-REJECTED",name),[]).append((ln,nn,stage)); continue
            a = run_cont(m,cf); b = run_cont(twin,cf)
            if a!=b or m.arms!=twin.arms:
                report.setdefault(("STATE-CHANGED",name,et),[]).append((ln,nn,stage))
for k,v in sorted(report.items(), key=str):
    print(k, len(v), sorted(set((a,b) for a,b,c in v)) if k[0]=="STATE-CHANGED" and "pfit" in k[1] else v[:4])
