import warnings; warnings.filterwarnings("ignore")
import numpy as np, copy, pickle
from mabwiser.mab import MAB, LearningPolicy as LP, NeighborhoodPolicy as NP
from mabwiser.utils import create_rng

X = [[0,0],[0,1],[1,0],[1,1],[2,0],[0,2]]
dec=[1,2,1,2,1,2]; rew=[1,0,1,1,0,1]
Q = np.array([[0,0],[1,1],[2,2],[0,1]])

def rowwise(m, is_predict=False):
    """whole batch vs each row alone with same seeds, process semantics (pickled copy per task)"""
    imp = m._imp
    seeds = np.arange(100, 100+len(Q))
    whole = pickle.loads(pickle.dumps(imp))._predict_contexts(Q, is_predict, seeds, 0)
    single = []
    for i in range(len(Q)):
        single += pickle.loads(pickle.dumps(imp))._predict_contexts(Q[i:i+1], is_predict, seeds[i:i+1], i)
    return whole, single

for name, lp, npol in [
    ("TreeBandit+TS", LP.ThompsonSampling(), NP.TreeBandit()),
    ("TreeBandit+UCB", LP.UCB1(), NP.TreeBandit()),
    ("Clusters+LinTS", LP.LinTS(alpha=1), NP.Clusters(2)),
    ("Radius+LinTS", LP.LinTS(alpha=1), NP.Radius(1.0)),
    ("KNearest+LinTS", LP.LinTS(alpha=1), NP.KNearest(2)),
    ("LSH+LinTS", LP.LinTS(alpha=1), NP.LSHNearest(1,1)),
    ("Radius+TS", LP.ThompsonSampling(), NP.Radius(1.0)),
    ("Clusters+TS", LP.ThompsonSampling(), NP.Clusters(2)),
    ("Radius+Softmax", LP.Softmax(), NP.Radius(1.0)),
]:
    m = MAB([1,2], lp, npol, seed=5); m.fit(dec, rew, X)
    w, s = rowwise(m)
    same = str(w)==str(s)
    print(f"{name:18s} whole==rowwise: {same}")
    if not same:
        for a,b in zip(w,s): print("    ", a, "|", b)

print("== real joblib n_jobs=1 vs 2 TreeBandit+TS")
for nj in (1,2):
    m = MAB([1,2], LP.ThompsonSampling(), NP.TreeBandit(), seed=5, n_jobs=nj); m.fit(dec, rew, X)
    print(nj, m.predict_expectations(Q))
