import warnings; warnings.filterwarnings("ignore")
import os; os.environ["OMP_NUM_THREADS"]="1"
import numpy as np, copy, itertools, hashlib, time
from mabwiser.mab import MAB, LearningPolicy as LP, NeighborhoodPolicy as NP
X = [[0,0],[0,0],[1,1],[1,1],[2,2],[0,0]]; dec=[1,2,1,2,1,2]; rew=[1,0,1,1,0,1]
Q = [[0,1],[1,0],[2,2]]
X2=[[1,0],[0,1],[1,1]]; dec2=[2,1,2]; rew2=[1,1,0]
LPS = {"eg0":lambda:LP.EpsilonGreedy(0),"egd":lambda:LP.EpsilonGreedy(),"ucb":lambda:LP.UCB1(1),"sm":lambda:LP.Softmax(),"ts":lambda:LP.ThompsonSampling(),"pop":lambda:LP.Popularity(),"rnd":lambda:LP.Random(),
       "lg":lambda:LP.LinGreedy(0.2),"lucb":lambda:LP.LinUCB(),"lts":lambda:LP.LinTS()}
NPS = {"none":lambda:None,"rad":lambda:NP.Radius(1.0),"radd":lambda:NP.Radius(),"knn":lambda:NP.KNearest(2),"lsh":lambda:NP.LSHNearest(2,2),"clu":lambda:NP.Clusters(2),"tree":lambda:NP.TreeBandit(),"treep":lambda:NP.TreeBandit({"max_depth":2})}
def combos():
    for ln,l in LPS.items():
        for nn,n in NPS.items():
            if nn.startswith("tree") and ln not in ("eg0","egd","ucb","ts"): continue
            yield ln,nn,l,n
def ctxfree(ln,nn): return nn=="none" and ln not in ("lg","lucb","lts")
def merges(a,b):
    if not a: yield list(b); return
    if not b: yield list(a); return
    for r in merges(a[1:],b): yield [a[0]]+r
    for r in merges(a,b[1:]): yield [b[0]]+r
bad={}; runs=0; t0=time.time()
for ln,nn,lf,nf in combos():
    cf=ctxfree(ln,nn)
    for share in ("same-tuple","fresh-tuple"):
        def script(merged):
            lpt,npt = lf(),nf()
            env={}
            out=[]
            def S(i):
                if i==0: env["s"]=MAB([1,2],lpt,npt,seed=7)
                elif i==1: (env["s"].fit(dec,rew) if cf else env["s"].fit(dec,rew,X))
                elif i==2: out.append(repr(env["s"].predict(None if cf else Q)))
                elif i==3: (env["s"].partial_fit(dec2,rew2) if cf else env["s"].partial_fit(dec2,rew2,X2))
                elif i==4: out.append(repr(env["s"].predict_expectations(None if cf else Q)))
            def I(i):
                if i==0: env["i"]=MAB([1,2],(lpt if share=="same-tuple" else lf()),(npt if share=="same-tuple" else nf()),seed=8)
                elif i==1: (env["i"].fit(dec2,rew2) if cf else env["i"].fit(dec2,rew2,X2))
                elif i==2: env["i"].predict(None if cf else Q)
            for who,i in merged: (S if who=="S" else I)(i)
            return out
        solo=script([("S",i) for i in range(5)])
        for mg in merges([("S",i) for i in range(5)],[("I",i) for i in range(3)]):
            runs+=1
            if script(mg)!=solo: bad.setdefault((ln,nn,share),[]).append("".join(w for w,_ in mg))
print("runs",runs,f"{time.time()-t0:.0f}s")
for k,v in bad.items(): print(k,len(v),v[:3])
