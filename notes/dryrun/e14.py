import warnings; warnings.filterwarnings("ignore")
import os; os.environ["OMP_NUM_THREADS"]="1"
import numpy as np, copy, itertools, math
from fractions import Fraction
from mabwiser.mab import MAB, LearningPolicy as LP, NeighborhoodPolicy as NP

def cf_expect(lp, arms, dec, rew):
    m = MAB(list(arms), lp, seed=1); m.fit(list(dec), list(rew)); return m.predict_expectations()
def close(a,b): 
    return list(a)==list(b) and all((x!=x and y!=y) or abs(x-y)<=1e-9*max(1,abs(y)) for x,y in zip(a.values(),b.values()))
grid1=[(0,),(1,),(2,)]
grid2=[(x,y) for x in range(3) for y in range(3)]
dist = {"cityblock":lambda a,b: sum(abs(x-y) for x,y in zip(a,b)), "chebyshev":lambda a,b:max(abs(x-y) for x,y in zip(a,b)), "sqeuclidean":lambda a,b:sum((x-y)**2 for x,y in zip(a,b)), "euclidean":lambda a,b:sum((x-y)**2 for x,y in zip(a,b))}
bad={}; cnt=0
# C03 radius + knearest, d=2, n=3
for lpname,lp in (("eg0",LP.EpsilonGreedy(0)),("ucb",LP.UCB1(1))):
  for metric in dist:
    for rows in itertools.product(grid2, repeat=3):
      for armsassign in itertools.product([1,2], repeat=3):
        rew=[1,2,4]
        for r in ([1,2] if metric!="euclidean" else [1,math.sqrt(2),2]):
            m=MAB([1,2],lp,NP.Radius(r,metric),seed=2); m.fit(list(armsassign[:2]),rew[:2],[list(x) for x in rows[:2]]); m.partial_fit([armsassign[2]],[rew[2]],[list(rows[2])])
            E=m.predict_expectations([list(q) for q in grid2]); cnt+=1
            for q,e in zip(grid2,E):
                thr = r*r if metric=="euclidean" else r
                S=[i for i in range(3) if dist[metric](rows[i],q) <= (2 if (metric=="euclidean" and r==math.sqrt(2)) else thr)]
                if not S:
                    if not all(v!=v for v in e.values()): bad.setdefault(("rad-empty",metric),[]).append((rows,q,r,e))
                else:
                    want=cf_expect(lp,[1,2],[armsassign[i] for i in S],[rew[i] for i in S])
                    if not close(e,want): bad.setdefault(("rad",metric,lpname),[]).append((rows,armsassign,q,r,e,want))
        for k in (1,2,3):
            m=MAB([1,2],lp,NP.KNearest(k,metric),seed=2); m.fit(list(armsassign),rew,[list(x) for x in rows])
            E=m.predict_expectations([list(q) for q in grid2]); cnt+=1
            for q,e in zip(grid2,E):
                D=[dist[metric](rows[i],q) for i in range(3)]; dk=sorted(D)[k-1]
                inner=[i for i in range(3) if D[i]<dk]; tie=[i for i in range(3) if D[i]==dk]
                ok=False
                for sub in itertools.combinations(tie,k-len(inner)):
                    S=inner+list(sub)
                    if close(e,cf_expect(lp,[1,2],[armsassign[i] for i in S],[rew[i] for i in S])): ok=True;break
                if not ok: bad.setdefault(("knn",metric,lpname),[]).append((rows,armsassign,q,k,e))
print("C03 bandits",cnt); 
for k,v in bad.items(): print(k,len(v),v[:2])
