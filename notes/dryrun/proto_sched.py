"""Feasibility prototype: opcode-level preemption-bounded exploration of joblib sharedmem tasks."""
import warnings; warnings.filterwarnings("ignore")
import sys, threading, dis, time, copy, pickle
import numpy as np
import mabwiser.base_mab as base_mab
from mabwiser.mab import MAB, LearningPolicy as LP, NeighborhoodPolicy as NP

SHARED_OPS = {"LOAD_ATTR","STORE_ATTR","BINARY_SUBSCR","STORE_SUBSCR","DELETE_SUBSCR","CALL","LOAD_GLOBAL"}

class Deadlock(Exception): pass

class Sched:
    """Runs thunks as threads, one at a time; at each scheduling point asks chooser which thread continues."""
    def __init__(self, thunks, prefix):
        self.thunks=thunks; self.prefix=list(prefix); self.choices=[]; self.points=[]  # points: (enabled ids, running id)
        self.sems=[threading.Semaphore(0) for _ in thunks]; self.main=threading.Semaphore(0)
        self.done=[False]*len(thunks); self.results=[None]*len(thunks); self.exc=[None]*len(thunks)
        self.current=None
    def _trace(self, tid):
        def local(frame, event, arg):
            if event=="opcode":
                code=frame.f_code
                op = dis.opname[code.co_code[frame.f_lasti]]
                if op in SHARED_OPS:
                    self._yield(tid)
            return local
        def glob(frame, event, arg):
            if "mabwiser" in frame.f_code.co_filename:
                frame.f_trace_opcodes=True
                return local
            return None
        return glob
    def _yield(self, tid):
        # hand control to scheduler, wait until rescheduled
        self.main.release(); self.sems[tid].acquire()
    def _body(self, tid):
        self.sems[tid].acquire()
        sys.settrace(self._trace(tid))
        try: self.results[tid]=self.thunks[tid]()
        except BaseException as e: self.exc[tid]=e
        finally:
            sys.settrace(None); self.done[tid]=True; self.main.release()
    def run(self):
        ths=[threading.Thread(target=self._body,args=(i,),daemon=True) for i in range(len(self.thunks))]
        for t in ths: t.start()
        running=None
        while True:
            enabled=[i for i in range(len(self.thunks)) if not self.done[i]]
            if not enabled: break
            # canonical order: running first if still enabled
            order=([running] if running in enabled else [])+[i for i in enabled if i!=running]
            k=len(self.choices)
            c = self.prefix[k] if k<len(self.prefix) else 0
            assert c < len(order), "divergence while replaying prefix"
            self.points.append((order, running in enabled))
            self.choices.append(c)
            running=order[c]
            self.sems[running].release(); self.main.acquire()
        for t in ths: t.join()
        return self.results

def explore(make_thunks, check, bound):
    stats={"schedules":0,"outcomes":set()}
    def rec(prefix):
        s=Sched(*make_thunks(), prefix) if False else None
    stack=[[]]
    while stack:
        prefix=stack.pop()
        thunks, finish = make_thunks()
        s=Sched(thunks,prefix); s.run()
        stats["schedules"]+=1
        stats["outcomes"].add(check(finish()))
        # preemptions used before each point
        pre=0; pres=[]
        for (order,run_en),c in zip(s.points,s.choices):
            pres.append(pre)
            if run_en and c!=0: pre+=1
        for i in range(len(prefix), len(s.points)):
            order,run_en=s.points[i]
            cost=pres[i]+(1 if run_en else 0)
            if cost>bound: continue
            for alt in range(1,len(order)):
                stack.append(s.choices[:i]+[alt])
    return stats

class FakeParallel:
    current=None
    def __init__(self, n_jobs=None, backend=None, require=None, **kw): self.require=require
    def __call__(self, tasks):
        tasks=list(tasks)
        thunks=[(lambda f=f,a=a,k=k: f(*a,**k)) for f,a,k in tasks]
        FakeParallel.current(thunks)
        return [None]*len(thunks)

def run_case(lp, bound):
    dec=np.array([1,2,1,2,3]); rew=np.array([1.,0.,2.,5.,7.])
    ref=MAB([1,2,3], lp, seed=1); ref.fit(dec,rew); ref.partial_fit(dec,rew)
    want=pickle.dumps(ref._imp.__dict__ | {"rng":None})
    def make():
        m=MAB([1,2,3], lp, seed=1, n_jobs=3); 
        holder={}
        orig=base_mab.Parallel
        # fit sequentially first (no exploration), explore the partial_fit
        base_mab.Parallel=orig
        m.n_jobs=1; m._imp.n_jobs=1; m.fit(dec,rew); m._imp.n_jobs=3
        captured=[]
        FakeParallel.current=lambda th: captured.extend(th)
        base_mab.Parallel=FakeParallel
        # run partial_fit up to the parallel region: capture thunks; post-region code runs after threads complete
        # trick: run partial_fit in two halves is impossible; instead execute thunks inside Parallel call:
        def par_exec(th):
            holder["sched_run"](th)
        FakeParallel.current=par_exec
        def thunks_runner():
            pass
        return m, holder
    # simpler: explore by running whole partial_fit with Parallel executing the explorer's schedule
    stats={"schedules":0,"outcomes":set(),"points":0}
    stack=[[]]
    while stack:
        prefix=stack.pop()
        m=MAB([1,2,3], lp, seed=1, n_jobs=1); m.fit(dec,rew)
        rec={}
        def par_exec(th):
            s=Sched(th,prefix); s.run(); rec["s"]=s
            for e in s.exc:
                if e: raise e
        FakeParallel.current=par_exec
        base_mab.Parallel=FakeParallel
        try: m.partial_fit(dec,rew)
        finally:
            import joblib; base_mab.Parallel=joblib.Parallel
        s=rec["s"]; stats["schedules"]+=1; stats["points"]=max(stats["points"],len(s.points))
        got=pickle.dumps(m._imp.__dict__ | {"rng":None})
        stats["outcomes"].add(got==want)
        pre=0; pres=[]
        for (order,run_en),c in zip(s.points,s.choices):
            pres.append(pre)
            if run_en and c!=0: pre+=1
        for i in range(len(prefix), len(s.points)):
            order,run_en=s.points[i]
            cost=pres[i]+(1 if run_en else 0)
            if cost>bound: continue
            for alt in range(1,len(order)):
                stack.append(s.choices[:i]+[alt])
    return stats

for name,lp in [("ucb",LP.UCB1(1)),("eg",LP.EpsilonGreedy(0)),("ts",LP.ThompsonSampling())]:
    for b in (0,1,2):
        if name=="ts": 
            pass
        t=time.time(); st=run_case(lp,b); dt=time.time()-t
        print(name,"bound",b,"schedules",st["schedules"],"max points",st["points"],"outcomes",st["outcomes"],f"{dt:.1f}s")
