import warnings; warnings.filterwarnings("ignore")
import numpy as np, copy, pickle
from mabwiser.mab import MAB, LearningPolicy as LP, NeighborhoodPolicy as NP

print("== C04/C18 TreeBandit shared default dict")
d0 = NP.TreeBandit().tree_parameters
print(" default before:", d0)
a = MAB([1,2], LP.UCB1(), NP.TreeBandit(), seed=1)
print(" default after A(seed=1):", NP.TreeBandit().tree_parameters, a._imp.tree_parameters is d0)
b = MAB([1,2], LP.UCB1(), NP.TreeBandit(), seed=2)
print(" A's tree_parameters after B(seed=2):", a._imp.tree_parameters)
user = {"max_depth": 2}
c = MAB([1,2], LP.UCB1(), NP.TreeBandit(user), seed=3)
print(" caller dict mutated:", user)

# observable effect: duplicate columns -> split feature chosen by random_state
def scenario(seed, interfere):
    X = [[0,0],[0,0],[1,1],[1,1]]
    dec = [1,1,1,1]; rew=[0,0,1,1]
    A = MAB([1,2], LP.EpsilonGreedy(0), NP.TreeBandit(), seed=seed)
    if interfere is not None:
        B = MAB([1,2], LP.EpsilonGreedy(0), NP.TreeBandit(), seed=interfere)
    A.fit(dec, rew, X)
    return A.predict_expectations([[0,1],[1,0]]), A._imp.arm_to_tree[1].tree_.feature[0]
outs=set()
for s in range(6):
    base = scenario(s, None)
    for i in range(6):
        o = scenario(s, i)
        if str(o)!=str(base):
            outs.add((s,i)); 
print(" (seed, interferer seed) pairs where output differs from solo run:", sorted(outs)[:10], len(outs))

print("== C07 LSH fit twice stale entries")
m = MAB([1,2], LP.EpsilonGreedy(0), NP.LSHNearest(n_dimensions=1, n_tables=1), seed=3)
X1 = [[1,0],[0,1],[1,1],[-1,0],[0,-1],[-1,-1]]
m.fit([1,2,1,2,1,2],[1,0,1,0,1,0],X1)
m.fit([1,2],[0,1],[[1,0],[-1,0]])
print(" tables after second fit:", {k:dict(v) for k,v in m._imp.table_to_hash_to_index.items()}, "history len", len(m._imp.decisions))
try:
    print(" predict:", m.predict_expectations([[1,0],[-1,0]]))
except Exception as e:
    print(" predict raised:", type(e).__name__, e)
