import warnings; warnings.filterwarnings("ignore")
import numpy as np, copy, pickle, hashlib, time
from mabwiser.mab import MAB, LearningPolicy as LP, NeighborhoodPolicy as NP
def binz(a,r): return r>=1
X = [[0,0],[0,1],[1,0],[1,1],[2,0],[0,2]]; dec=[1,2,1,2,1,2]; rew=[1,0,1,1,0,1]; Q=[[0,0],[1,1]]
LPS = {"eg0":LP.EpsilonGreedy(0),"ucb":LP.UCB1(1),"sm":LP.Softmax(),"ts":LP.ThompsonSampling(binz),"pop":LP.Popularity(),"rnd":LP.Random(),"lg":LP.LinGreedy(0.3),"lucb":LP.LinUCB(scale=True),"lts":LP.LinTS()}
NPS = {"none":None,"rad":NP.Radius(1.0),"knn":NP.KNearest(2),"lsh":NP.LSHNearest(2,2),"clu":NP.Clusters(2),"mclu":NP.Clusters(2,True),"tree":NP.TreeBandit()}
tot=0
for ln,l in LPS.items():
    for nn,n in NPS.items():
        if nn=="tree" and ln not in ("eg0","ucb","ts"): continue
        cf = nn=="none" and ln not in ("lg","lucb","lts")
        m=MAB([1,2],l,n,seed=4)
        b0=pickle.dumps(m,4)
        (m.fit(dec,rew) if cf else m.fit(dec,rew,X))
        t=time.perf_counter(); b1=pickle.dumps(m,4); b1b=pickle.dumps(copy.deepcopy(m),4); dt=time.perf_counter()-t
        same = b1==b1b
        m2=pickle.loads(b1); 
        ok = repr(m2.predict_expectations(None if cf else Q))==repr(copy.deepcopy(m).predict_expectations(None if cf else Q))
        tot+=1
        if not (same and ok): print(ln,nn,"pickle(deepcopy)==pickle:",same,"roundtrip ok:",ok, len(b1))
print("combos",tot,"done")
