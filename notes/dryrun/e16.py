import warnings; warnings.filterwarnings("ignore")
import os; os.environ["OMP_NUM_THREADS"]="1"
import numpy as np, copy, itertools, math, time
from mabwiser.mab import MAB, LearningPolicy as LP, NeighborhoodPolicy as NP
def cf_expect(lp, arms, dec, rew):
    m = MAB(list(arms), lp, seed=1); m.fit(list(dec), list(rew)); return m.predict_expectations()
def close(a,b): 
    return list(a)==list(b) and all((x!=x and y!=y) or abs(x-y)<=1e-9*max(1,abs(y)) for x,y in zip(a.values(),b.values()))
bad={}; cnt=0; ties=0; t0=time.time()
grid=[(x,y) for x in range(3) for y in range(3)]
import random
rows_alpha=[(0,0),(0,1),(2,2),(2,1),(1,0)]
# C12 clusters
for lpname,lp in (("eg0",LP.EpsilonGreedy(0)),("ucb",LP.UCB1(1))):
  for nc,mb in ((2,False),(2,True),(3,False)):
    for rows in itertools.product(rows_alpha, repeat=4):
      if len(set(rows))<nc: continue
      for assign in ((1,2,1,2),(1,1,2,2)):
        rew=[1,2,4,8]
        for split in (4,3):
          if split<nc: continue
          m=MAB([1,2],lp,NP.Clusters(nc,mb),seed=4)
          try:
              m.fit(list(assign[:split]),rew[:split],[list(r) for r in rows[:split]])
              for i in range(split,4): m.partial_fit([assign[i]],[rew[i]],[list(rows[i])])
          except Exception as ex:
              bad.setdefault(("clu-exc",type(ex).__name__,str(ex)[:50]),[]).append((rows,split)); continue
          km=m._imp.kmeans; labels=km.labels_; cnt+=1
          E=m.predict_expectations([list(q) for q in grid])
          cells=km.predict(np.array(grid)); C=km.cluster_centers_
          for q,e,c in zip(grid,E,cells):
              d=sorted(np.linalg.norm(C-np.array(q),axis=1))
              if len(d)>1 and abs(d[1]-d[0])<=1e-6*max(1,d[1]): ties+=1; continue
              S=[i for i in range(4) if labels[i]==c]
              want=cf_expect(lp,[1,2],[assign[i] for i in S],[rew[i] for i in S]) if S else None
              if want is None or not close(e,want): bad.setdefault(("clu",lpname,nc,mb),[]).append((rows,assign,split,q,e,want))
print("C12 clusters bandits",cnt,"ties skipped",ties,f"{time.time()-t0:.0f}s")
# C12 treebandit
cnt=0
for lpname,lp in (("eg0",LP.EpsilonGreedy(0)),("ucb",LP.UCB1(1))):
  for params in ({},{"max_depth":1},{"min_samples_leaf":2}):
    for rows in itertools.product(rows_alpha, repeat=4):
      for assign in ((1,2,1,2),(1,1,2,1),(1,1,1,1)):
        rew=[1,2,4,8]
        for split in (4,2):
          m=MAB([1,2],lp,NP.TreeBandit(dict(params)),seed=4)
          m.fit(list(assign[:split]),rew[:split],[list(r) for r in rows[:split]])
          for i in range(split,4): m.partial_fit([assign[i]],[rew[i]],[list(rows[i])])
          cnt+=1
          E=m.predict_expectations([list(q) for q in grid])
          for q,e in zip(grid,E):
              want={}
              for a in (1,2):
                  idx=[i for i in range(4) if assign[i]==a]
                  if not idx: want[a]=0; continue
                  tr=m._imp.arm_to_tree[a]; leaf=tr.apply(np.array([q]))[0]
                  lv=tr.apply(np.array([rows[i] for i in idx]))
                  S=[i for i,l in zip(idx,lv) if l==leaf]
                  want[a]=cf_expect(lp,[a],[a]*len(S),[rew[i] for i in S])[a] if S else "EMPTY-LEAF"
              if any(v=="EMPTY-LEAF" for v in want.values()) or not close(e,want): bad.setdefault(("tree",lpname,str(params)),[]).append((rows,assign,split,q,e,want))
print("C12 tree bandits",cnt,f"{time.time()-t0:.0f}s")
for k,v in bad.items(): print(k,len(v),v[:2])
