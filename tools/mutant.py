#!/venv/bin/python
"""Detection self-test: apply one mutant (notes/mutant_specs.py id, or a patch file) to a scratch copy
of /repo's mabwiser package, run the named checks against it through MABWISER_REPO, remove the copy.

usage: tools/mutant.py <Mxx | path/to/patch.diff> <check id> [<check id> ...] [--tier quick|thorough]
prints for every check: DETECTED (exit 1 + VIOLATION line) / MISSED (exit 0) / ERROR (exit 2)"""
import os
import shutil
import subprocess
import sys
import tempfile

HERE = os.path.dirname(os.path.dirname(os.path.abspath(__file__)))


def load_specs():
    ns = {}
    exec(open(os.path.join(HERE, "notes", "mutant_specs.py")).read(), ns)
    return {m[0]: m for m in ns["M"]}


def main():
    args = [a for a in sys.argv[1:] if not a.startswith("--")]
    tier = "quick"
    if "--tier" in sys.argv:
        tier = sys.argv[sys.argv.index("--tier") + 1]
        args = [a for a in args if a != tier]
    mut, checks = args[0], args[1:]
    scratch = tempfile.mkdtemp(prefix="mabmut_", dir="/tmp")
    try:
        shutil.copytree("/repo/mabwiser", os.path.join(scratch, "mabwiser"),
                        ignore=shutil.ignore_patterns("__pycache__"))
        if os.path.exists(mut):
            r = subprocess.run(["patch", "-p1", "-s", "-d", scratch, "-i", os.path.abspath(mut)], capture_output=True, text=True)
            if r.returncode:
                print("PATCH FAILED", r.stdout, r.stderr)
                return 2
            desc = mut
        else:
            mid, props, f, old, new, desc = load_specs()[mut]
            path = os.path.join(scratch, f)
            s = open(path).read()
            if s.count(old) != 1:
                print("MUTANT %s does not apply (%d matches)" % (mid, s.count(old)))
                return 2
            open(path, "w").write(s.replace(old, new))
        env = dict(os.environ, MABWISER_REPO=scratch, VERIF_EVIDENCE_DIR=os.path.join(scratch, "ev"),
                   VERIF_REPLAY_DIR=os.path.join(scratch, "replays"))
        rc_all = 0
        for c in checks:
            r = subprocess.run([os.path.join(HERE, "check"), c, "--tier", tier], capture_output=True, text=True, env=env)
            viol = [ln for ln in r.stdout.splitlines() if ln.startswith("VIOLATION")]
            state = {0: "MISSED", 1: "DETECTED" if viol else "EXIT1-NO-LINE", 2: "ERROR"}.get(r.returncode, "RC%d" % r.returncode)
            print("%s %s [%s]: %s  (%s)" % (mut, c, tier, state, desc))
            head = r.stdout.splitlines()[0] if r.stdout else ""
            print("   ", head[:200])
            for ln in r.stdout.splitlines():
                if ln.startswith("   [") or ln.startswith("HARNESS"):
                    print("   ", ln[:260])
                    break
            if state != "DETECTED":
                rc_all = 1
                if state == "ERROR":
                    print(r.stdout[-800:], r.stderr[-800:])
        return rc_all
    finally:
        shutil.rmtree(scratch, ignore_errors=True)


if __name__ == "__main__":
    sys.exit(main())
