#!/bin/bash
# usage: tools/suite.sh [dir]   -- runs the repository's unedited test suite in dir (default /repo).
# Expected: "584 passed, 1 deselected" (test_predict_ridge_scaler fails on the pinned tree already
# and is not in BASELINE.json's stable_pass list).
dir="${1:-/repo}"
cd "$dir" || exit 2
OMP_NUM_THREADS=2 OPENBLAS_NUM_THREADS=2 /venv/bin/python -m pytest -q -p no:cacheprovider --timeout=900 \
  --deselect tests/test_ridge.py::RidgeRegressionTest::test_predict_ridge_scaler 2>&1 | tail -4
