#!/bin/bash
# Detection self-test: every usable mutant of notes/mutants.md and the revert of every fix: commit is applied to a
# scratch copy of /repo's package and the targeted checks must report a VIOLATION.  Prints one line per (mutant, check).
cd "$(dirname "$0")/.." || exit 2
run() { tools/mutant.py "$@" 2>&1 | grep -E "DETECTED|MISSED|ERROR|PATCH FAILED|does not apply" | cut -c1-200; }
run M03 C05; run M04 C05; run M05 C05; run M13 C05; run M23 C05
run M07 C18; run M24 C18
run M09 C17
run M10 C07; run M25 C07 C01
run M11 C13
run M12 C15 C16; run M18 C16 C15
run M14 C01 C06; run M27 C01
run M15 C08; run M35 C08 C20; run M20 C20
run M16 C12
run M17 C14
run M21 C02
run M22 C03; run M29 C03; run M01 C03; run M28 C03 C06
run M32 C11; run M33 C11; run M39 C11 C06; run M02 C11 C06
run M34 C19; run M19 C19
run M45 C09; run M46 C09; run M06 C09; run M31 C09; run M37 C09
run mutants/revert_fec86dc.diff C07
run mutants/revert_db40bf3.diff C07 C08
run mutants/revert_eda1db2.diff C01 C06
run mutants/revert_837ec2e.diff C02
run mutants/revert_12c0d28.diff C05 C15
run mutants/revert_e49f5f5.diff C15
run mutants/revert_f910731.diff C17
run mutants/revert_34617cc.diff C17
run mutants/revert_ae22d29.diff C04 C18
run mutants/revert_6bdc8ef.diff C14
run mutants/revert_b8920e5.diff C08
run mutants/revert_9ebadb4.diff C14
