#!/bin/bash
# usage: tools/verify_seed.sh <seed id> <dir with patch.diff demo.py notes.md> <check id> [<check id> ...]
# Confirms an independently written property-breaking change in a fresh scratch worktree of /repo:
#   demo passes on the unmodified tree, fails with the patch, the unedited test suite still passes with the patch;
# then runs the named checks against the patched tree and stores everything under /verif/seeded/<seed id>/.
# PHASE=A: confirmation only (can run for many seeds in parallel: the suite is single-process);
# PHASE=B: checks only (sequential: each check uses all cores); default: both.
id="$1"; src="$2"; shift 2; checks="$@"
verif="$(cd "$(dirname "$0")/.." && pwd)"
wt="/tmp/vseed_$id"
if [ "$PHASE" != "B" ]; then
git -C /repo worktree remove --force "$wt" 2>/dev/null
git -C /repo worktree add -q --detach "$wt" HEAD || exit 2
mkdir -p "$wt/_seed" && cp "$src/demo.py" "$wt/_seed/demo.py"
cd "$wt" || exit 2
/venv/bin/python _seed/demo.py > /tmp/vseed_$id.base.log 2>&1; base=$?
git apply "$src/patch.diff" || { echo "PATCH DOES NOT APPLY"; git -C /repo worktree remove --force "$wt"; exit 2; }
/venv/bin/python _seed/demo.py > /tmp/vseed_$id.mut.log 2>&1; mut=$?
suite=$(OMP_NUM_THREADS=2 OPENBLAS_NUM_THREADS=2 /venv/bin/python -m pytest -q -p no:cacheprovider \
  --deselect tests/test_ridge.py::RidgeRegressionTest::test_predict_ridge_scaler 2>&1 | tail -1)
echo "seed $id: demo on unmodified tree exit=$base, with patch exit=$mut, suite with patch: $suite"
cd "$verif"
git -C /repo worktree remove --force "$wt"
dst="$verif/seeded/$id"; mkdir -p "$dst"
cp "$src/patch.diff" "$src/demo.py" "$dst/"; [ -f "$src/notes.md" ] && cp "$src/notes.md" "$dst/"
echo "$base|$mut|$suite" > "$dst/.confirm"
fi
cd "$verif"; dst="$verif/seeded/$id"
IFS='|' read base mut suite < "$dst/.confirm"
res=""
[ "$PHASE" = "A" ] && checks=""
for c in $checks; do
  line=$(tools/mutant.py "$dst/patch.diff" "$c" 2>&1 | grep -E "DETECTED|MISSED|ERROR|EXIT1" | head -1 | cut -c1-120)
  echo "   $line"
  res="$res$c:$(echo "$line" | grep -oE 'DETECTED|MISSED|ERROR|EXIT1-NO-LINE' | head -1) "
done
/venv/bin/python - "$id" "$base" "$mut" "$suite" "$res" "$checks" <<'EOF'
import json, sys, os
id_, base, mut, suite, res, checks = sys.argv[1:7]
dst = "/verif/seeded/%s" % id_
notes = open(os.path.join(dst, "notes.md")).read() if os.path.exists(os.path.join(dst, "notes.md")) else ""
meta = {"id": id_, "property": id_.split("-")[0], "origin": "written by an independent sub-agent that saw only the property text",
        "needs_to_manifest": "see notes.md",
        "confirmed": {"demo_exit_unmodified": int(base), "demo_exit_with_patch": int(mut), "suite_with_patch": suite,
                      "how": "fresh git worktree of /repo HEAD under /tmp; demo; git apply patch.diff; demo; unedited pytest suite"},
        "checks_run": {kv.split(":")[0]: kv.split(":")[1] for kv in res.split() if ":" in kv}}
if os.environ.get("PHASE") == "B":
    os.unlink(os.path.join(dst, ".confirm"))
json.dump(meta, open(os.path.join(dst, "meta.json"), "w"), indent=1)
print(json.dumps(meta["checks_run"]))
EOF
