#!/bin/bash
# usage: tools/runall.sh <quick|thorough> [seed ...]   -- runs every registered check, one summary line each
tier="${1:-quick}"; shift
seeds="${@:-0}"
cd "$(dirname "$0")/.." || exit 2
ids=$(/venv/bin/python -c "import json; print(' '.join(c['property_id'] for c in json.load(open('MANIFEST.json'))['checks']))")
for seed in $seeds; do
  for id in $ids; do
    start=$(date +%s)
    out=$(VERIF_SEED=$seed VERIF_EVIDENCE_DIR="${VERIF_EVIDENCE_DIR:-}" ./check "$id" --tier "$tier" 2>&1); rc=$?
    end=$(date +%s)
    echo "seed=$seed $id rc=$rc $((end-start))s $(echo "$out" | head -1 | cut -c1-160)"
    if [ $rc -ne 0 ]; then echo "$out" | grep -E "VIOLATION|HARNESS|Traceback|Error" | head -5; fi
    echo "$out" | grep -E "^KNOWN-FINDING" | cut -c1-60
  done
done
