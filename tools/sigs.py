import json,sys,collections
ev=json.load(open('/verif/evidence/%s.json'%sys.argv[1]))
c=collections.Counter()
for sig,n in ev['coverage']['violation_signatures'].items():
    p=sig.split()
    key=tuple(eval(sys.argv[2])(sig,p)) if len(sys.argv)>2 else sig
    c[key]+=n
for k,v in sorted(c.items(), key=lambda kv:-kv[1])[:80]: print(v,k)
