#!/bin/bash
# usage: tools/benign.sh <name> <patch.diff>  -- behaviour-preserving change: every check must stay silent (MISSED = good here)
name="$1"; patch="$2"
cd "$(dirname "$0")/.." || exit 2
mkdir -p seeded/benign-$name; cp "$patch" seeded/benign-$name/patch.diff; [ -f "$(dirname "$patch")/notes.md" ] && cp "$(dirname "$patch")/notes.md" seeded/benign-$name/
ids=$(/venv/bin/python -c "import json; print(' '.join(c['property_id'] for c in json.load(open('MANIFEST.json'))['checks']))")
out=$(tools/mutant.py seeded/benign-$name/patch.diff $ids 2>&1)
echo "$out" | grep -E "\]: (DETECTED|MISSED|ERROR|EXIT1)" | awk '{print $2, $4}' | tr '\n' ' '; echo
echo "$out" | grep -E "DETECTED|ERROR|EXIT1|HARNESS|PATCH FAILED" -A3 | head -40
/venv/bin/python - "$name" <<PY
import json,sys,re
out = """$(echo "$out" | grep -E "\]: (DETECTED|MISSED|ERROR|EXIT1)" | awk '{print $2, $4}')"""
res = dict(l.split() for l in out.strip().splitlines() if l.strip())
json.dump({"id": "benign-"+sys.argv[1], "kind": "behaviour-preserving refactoring written by an independent sub-agent; every check must stay silent",
           "checks_run": {k: ("silent" if v == "MISSED" else v) for k, v in res.items()}}, open("/verif/seeded/benign-%s/meta.json" % sys.argv[1], "w"), indent=1)
PY
