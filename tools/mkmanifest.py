"""Regenerates /verif/MANIFEST.json from the table below (keeps it valid at all times)."""
import json, os, sys
HERE = os.path.dirname(os.path.dirname(os.path.abspath(__file__)))
BASE = json.load(open("/root/.vp/BASELINE.json"))["cmd"]

CHECKS = {
 "C12": dict(
   technique="bounded exhaustive enumeration of stored-row tuples x compositions x arm-change variants x cluster/tree settings x policies; cell membership taken from the fitted scikit-learn object, expectations compared with the policy re-trained on exactly the cell's rows",
   text="Every tuple of up to n points of a 5-point grid is stored through every composition into fit + partial_fit* (with add_arm / remove_arm variants) under KMeans(2), MiniBatchKMeans(2), KMeans(3) and three tree parameter sets; for every grid query the expectations must be those of the learning policy trained from scratch on exactly the rows sharing the query's cluster / the arm's rewards sharing the query's leaf.",
   note="scikit-learn trusted for labels_/predict/apply; queries on centroid ties skipped and counted; n<=4 (quick, with reductions stated in the evidence) / n<=5 (thorough); variants: add_arm, remove_arm, 'query then fit again on one arm's rows'; default trees / KMeans(2) additionally with n_jobs=2 (joblib model)",
   ref="DESIGN.md section 7 (C12)"),
 "C20": dict(
   technique="exhaustive enumeration of relabellings x combinations, of all n! row permutations of every training subset, and of reward shift/scale constants over all short histories; metamorphic oracles",
   text="(a) a scenario covering training, arm changes and predictions is run under four relabellings (type and sort order changed) for every combination and must produce the renamed outputs with the same draws; (b) every permutation of every subset of up to 5 fixed rows gives the same expectations for context-free, linear and Radius/LSHNearest bandits; (c) reward shift / scale laws hold on every row sequence (n<=3) and composition in which every arm is observed.",
   note="relabellings incl. unequal-length strings; permutations both for a single fit and for rows fed one call at a time; bit-exact on the exactly summable alphabet, 1e-9 for linear policies; KNearest excluded from (b) as the statement allows; shift constants +-2^20",
   ref="DESIGN.md section 7 (C20)"),
 "C13": dict(
   technique="explicit-state BFS over the real bandit from every (policy, feature assignment, trained subset) initial state over {warm_start x 5 quantiles, partial_fit, fit, add_arm, remove_arm}; status-machine reference model in lock-step; per-transition rule oracle",
   text="For each of eight policies, all 125 assignments of five feature vectors (zero and duplicates included) to three arms and all six proper trained subsets, every operation sequence up to the depth bound is executed; a three-valued status machine must predict cold_arms in every state and each warm_start is judged against the documented rule (only cold arms change, exact copy of a closest trained arm, within the quantile threshold, idempotent, monotone in the quantile).",
   note="depth 2 (quick) / 3 on the 27 assignments over non-zero vectors (thorough); scipy cdist(cosine) and np.quantile trusted; per-arm learned state read from the implementor's documented fields; LinGreedy / LinUCB with scale=True (the learned state of an arm is the whole regression object); quick tier 3 calls deep for the 6 assignments of three distinct directions",
   ref="DESIGN.md section 7 (C13)"),
 "C14": dict(
   technique="bounded exhaustive enumeration of reward-row sequences x compositions x binarizers x neighbourhood policies x add_arm(binarizer) variants; differential oracle against a binarizer-free twin fed pre-converted rewards",
   text="Thompson Sampling alone and under each of Radius, KNearest, LSHNearest, Clusters (both k-means variants) and TreeBandit, with three binarizers that are not idempotent on {0,1}, is trained on every row sequence up to the bound through every composition, optionally installing a new binarizer by add_arm after the first call; outputs must equal those of a twin without binarizer trained on the converted rewards.",
   note="n<=3 rows over a 6-row alphabet with rewards {0,1,2,5} (quick), n<=4 (thorough); known finding F-C14-a (TreeBandit converts leaf rewards again) attributed by trigger + in-memory repair; n_jobs=2 slices; zero-row partial_fit; binarizer first installed by add_arm ('install', 'install_end'); the number of binarizer invocations during training equals the number of observations",
   ref="DESIGN.md section 7 (C14), section 8"),
 "C04": dict(
   technique="exhaustive enumeration of all order-preserving interleavings of a subject script with an interfering bandit's script (56 merges x 3 interferer kinds x every combination); fresh-interpreter runs over a hash-seed alphabet",
   text="The 5-step script of a seeded bandit is interleaved in every possible way with the 3-step script of another bandit with another seed (built from the very same policy tuple objects, from default-constructed tuples, or a TreeBandit) and must produce the outputs it produces alone; the script is also executed in fresh interpreters with PYTHONHASHSEED 0, 1, 4242 and random. TreeBandit subjects use a driver in which the random_state-dependent split choice is observable.",
   note="single-threaded numerical kernels as the property assumes; one subject script per combination (TreeBandit subjects add an arm and train it on tied columns); a fourth interferer draws from / re-seeds numpy's and random's process-wide generators; seed 0 subjects",
   ref="DESIGN.md section 7 (C04)"),
 "C18": dict(
   technique="deviation-bounded exhaustive enumeration of container encodings (all assignments differing from the all-lists baseline in <= B of 7 data axes) per policy combination, with byte-level before/after snapshots of every caller object",
   text="A scenario covering all eight public methods is executed for every encoding assignment within the deviation bound (lists, int/float ndarrays, Fortran/strided/transposed views, Series with non-monotonic index, DataFrames with labels); outputs must equal the baseline and no object passed in (data, arms list, policy parameter objects, feature dict) may change; Series single-row / single-feature disambiguation scenarios are compared with their list equivalents.",
   note="B = 2 (quick) / 3 (thorough) with int labels; one deviating axis with str labels and with non-dyadic float contexts incl. read-only buffers; exact comparison (1e-9 for linear policies); inexact probability lists, heterogeneous nested lists (all-int first row), scale=True linear policies",
   ref="DESIGN.md section 7 (C18)"),
 "C06": dict(
   technique="bounded exhaustive enumeration of row sequences x all compositions into fit + partial_fit* per policy combination; differential oracle against the single-fit bandit (canonical object-graph identity after generator alignment, else output comparison)",
   text="Every row sequence up to the length bound over a 4-row alphabet (chunks that omit arms and one-row chunks arise from the compositions) is trained once with a single fit and once through every composition into consecutive chunks; the two bandits must be observationally identical from the same stream position.",
   note="n<=4 (quick; 3 for non-representative policies under a neighbourhood policy) / n<=5 (thorough); bit-exact for count/sum and neighbourhood policies, 1e-9 for linear; TreeBandit and scale=True excluded by the statement; seven combinations additionally with n_jobs=2 (joblib model)",
   ref="DESIGN.md section 7 (C06)"),
 "C17": dict(
   technique="explicit-state BFS over valid histories (plus five named stages) x exhaustive catalogue of invalid calls injected at every position; decided by bit-identity of the canonical object graph with the pre-call twin, else by exhaustive continuation comparison",
   text="For every policy combination, at every state of the bounded search and in five named stages (unfitted, fitted, fitted+partial_fit, cold arm listed last / first), every invalid call of the catalogue (~30-42 classes over all eight public methods) is injected once. If the library rejects it, the arm list must be unchanged and the complete object graph must be bit-identical to the twin copied before the call (identical graphs have identical futures); if it differs, every continuation up to depth 2 must give identical outputs.",
   note="26 rejected constructor calls (arguments, an existing bandit and later-built bandits unaffected); rejected training calls in 'same width' and 'other width' flavours; positions after predictions included; errors raised during prediction are compared after aligning generator positions; calls the library accepts are counted, not judged; Series contexts among the invalid partial_fit calls",
   ref="DESIGN.md section 7 (C17)"),
 "C15": dict(
   technique="bounded exhaustive enumeration of simulations (bandit lists x data sets x test_size x split mode x every batch size x is_quick) with a differential oracle: replay of each run through the public API on copies taken before the Simulator was built",
   text="Every policy combination singly and every ordered pair of Radius/KNearest bandits with different metrics is simulated over the full product of the parameter alphabet (including every batch size 0..|test|); each run is replayed through fit/predict/predict_expectations/partial_fit with the recomputed split and must report the same predictions (and expectations for deterministic policies).",
   note="6-12 rows on integer grids with boundary rows, a non-degenerate float grid for seuclidean / mahalanobis and a one-decimal grid (distances within single precision of the radius); train_test_split trusted; randomised policies compared on predictions only; bandits with an earlier life (fit + queries) and bandits with n_jobs=2 (joblib model)",
   ref="DESIGN.md section 7 (C15)"),
 "C16": dict(
   technique="bounded exhaustive enumeration of simulations; every reported quantity recomputed independently from the raw data (split, per-arm statistics, evaluation rule incl. neighbourhood statistics by integer distance arithmetic)",
   text="For each bandit kind, data set with arms absent from train/test, test size, split mode, every batch size and is_quick, the simulator's split, statistics, prediction count and min/avg/max analyses are compared with a from-scratch recomputation of the documented rules.",
   note="the account of the previous simulation is re-read after each further simulation; LSH neighbourhood statistics are taken as reported; KNearest rows with tied k-th distance use the reported neighbourhood (counted); the bandit under account also as the second of two neighbourhood bandits with different metrics, and with n_jobs=2",
   ref="DESIGN.md section 7 (C16)"),
 "C05": dict(
   technique="exhaustive enumeration of partitions, compositions and completion orders through a joblib model driven by the explorer; stateless preemption-bounded schedule exploration (sys.monitoring INSTRUCTION-level scheduler, real threads, one running at a time) of the shared-memory regions; conformance runs against real joblib",
   text="(1) _partition_contexts is checked for every n<=64, n_jobs and cpu count; (2) for every neighbourhood combination, every query batch up to the bound, every composition into contiguous chunks is run through the library's own _parallel_predict on isolated pickled copies and on the shared object in every completion order and must give the n_jobs=1 result; (3) per-arm fit tasks, LSH insert tasks and threading-backend prediction tasks are executed under every schedule with at most B preemptions at attribute/subscript/call granularity and must reproduce the sequential model and outputs, plus a free-running recorder pass checking disjoint write sets; (4) the joblib model is compared with real joblib backends.",
   note="batches <=4 rows (quick) / <=6 (thorough), also under data-dependent metrics (seuclidean, mahalanobis, cosine); preemption bound 1 / 2; NumPy/scikit-learn calls atomic; only receivers in the shared bandit graph are preemptible; known finding F-C05-a (TreeBandit draws from the main generator inside tasks) attributed by trigger + in-memory repair; thorough: batches <=5, bound 1 for ts/tree and eg5/tree predictions; obligation 6: overflowing totals under n_jobs 1..3; schedule exploration sharded by the index of the first preemption",
   ref="DESIGN.md sections 3.4 and 7 (C05)"),
 "C11": dict(
   technique="bounded exhaustive enumeration of stored-row tuples over {-1,0,1}^d x assignments x compositions x LSH settings x n_jobs x queries (stored, scaled, grid, zero) against an exact-rational sign-pattern oracle built from the bandit's own hyperplanes",
   text="Every tuple of up to n vectors of {-1,0,1}^d (zero vector included) is stored through every composition into fit + partial_fit*, for three (n_dimensions, n_tables) settings and hashing with n_jobs 1 and 2; for every query of the alphabet the expectations must equal the learning policy trained on exactly the rows whose exact sign pattern collides with the query's in at least one table, NaN if none; scaled queries must agree with the original and a stored row must find itself.",
   note="planes are read from the fitted bandit (they are random but fixed at fit time); projections are evaluated in exact rationals; d=1 n<=4, d=2 n<=3, d=3 n<=2 (quick); three seeds, all arm assignments and d=1 n<=5 in thorough; half of the histories are preceded by an earlier life of the same bandit (fit + query); queries 2^600 x and 2^-600 x every stored row; a third of the bandits remove arm 2 before the queries",
   ref="DESIGN.md section 7 (C11)"),
 "C03": dict(
   technique="bounded exhaustive enumeration of stored-row tuples x arm assignments x compositions x metric x radius/k x policy x grid queries against an integer-arithmetic neighbourhood oracle (reference policy re-trained on the oracle's rows)",
   text="Every tuple of up to n grid points as stored contexts, with arm assignments, compositions into fit + partial_fit*, four metrics, radii on exact distance values (boundary included, sqrt(2) for euclidean), every k, and every grid point as query (batch and single row) is executed; expectations must equal the library's learning policy trained from scratch on exactly the oracle's neighbourhood (any admissible KNearest tie-break), empty neighbourhoods give NaN and the replicated empty-neighbourhood draw.",
   note="grids {0..3}, {0,1,2}x{0,1}, a metric-order-sensitive 5-point grid (quick); 3x3 grid and longer tuples (thorough); radii over every distance value of the grid; a third of the bandits first live an earlier life (fit + query) before the history; scipy cdist not trusted (oracle uses integers), the learning policy is (C01/C02 judge it); a third of the bandits answer with n_jobs=2 (joblib model), a quarter remove arm 2, answer a query and add it again; Softmax / Thompson tuples of <=2 rows in the quick tier",
   ref="DESIGN.md section 7 (C03)"),
 "C02": dict(
   technique="bounded exhaustive enumeration of training histories (row sequences x compositions into fit+partial_fit x arm additions x query batch sizes) against an exact-rational ridge-regression reference executed in lock-step",
   text="For every policy setting, lambda, scale flag and feature count 1..3, every row sequence up to the length bound over the row alphabet, every composition into fit + partial_fit*, three arm-addition variants and query batches of 1..3 rows are executed on the implementation and compared with Gaussian elimination over fractions. Exhaustive within the alphabet.",
   note="n<=3 rows over 4 rows (quick) / n<=4 over 5 rows (thorough), real-valued and negative contexts included, plus one 703-row single-fit history per configuration; tolerance 1e-9 (1e-6 for LinTS at alpha=1e-9 and for scale=True); known finding F-C02-a (unobserved-arm covariance) is attributed by trigger + in-memory repair; adjacent large labels (100001..100003) with decisions as list / int64 / float64 arrays",
   ref="DESIGN.md section 7 (C02), section 8"),
 "C01": dict(
   technique="explicit-state BFS over the real bandit in lock-step with an exact-rational reference model (product state = bandit digest x reference state); sampler replayed bit-exactly on a cloned generator",
   text="Every history up to the depth bound over {fit, partial_fit with every 1-row and ordered 2-row batch, add_arm, remove_arm, re-add} is executed for each context-free policy setting and label type; after every transition the learned expectations must equal the reference model's statistic and predict_expectations() must equal the documented sampler applied to them.",
   note="depth 4 (quick) / 5 (thorough); rewards from {-1.5, 0, 2, 1e6} / {0,1,3} / {0,1}; relative tolerance 1e-9 against exact rationals; the distributional claim is decided by exact replay of the sampler, not statistically; extra shards: narrow integer reward arrays (int8/int32 totals beyond the dtype) and close means at level 2^30 (Softmax tau 0.07/0.011, UCB1, greedy), depth 3",
   ref="DESIGN.md section 7 (C01)"),
 "C07": dict(
   technique="explicit-state BFS over the real bandit (prior histories, canonical-digest de-duplication) x exhaustive D/continuation alphabet; differential oracle against a freshly constructed bandit",
   text="Every prior history up to the depth bound over {fit, partial_fit, add_arm, remove_arm, warm_start, predict}, for every policy combination, is followed by fit(D) for every D of the alphabet and every one-step continuation; the refitted bandit must be observationally equal to a fresh one fit on D from the same stream position. Exhaustive within the stated alphabet, executed on the implementation itself.",
   note="alphabet: 2-3 arms, 4 data sets D, prior histories of depth 2 (quick) / 3 (thorough) incl. queries, warm start and a call in which an arm has data but zero sums; LinTS compared on expectations at alpha=1e-9 where generator identities differ; scikit-learn trusted",
   ref="DESIGN.md section 7 (C07)"),
 "C08": dict(
   technique="explicit-state BFS over the real bandit from the unfitted state (arm changes x training calls, canonical-digest de-duplication); shape/membership/order invariant evaluated in every fitted state for 0/1/2/3 query rows",
   text="All histories up to the depth bound over {fit, partial_fit, add_arm, remove_arm incl. re-adding, warm_start} from the unfitted bandit are executed for every policy combination, three label types and n_jobs 1/2; in every reached fitted state the outputs of predict and predict_expectations are checked against the current arm list. Exhaustive within the alphabet; states de-duplicated by a digest of the complete object graph.",
   note="depth 3 (quick; 2 for float labels and n_jobs=2) / 4 (thorough); the BFS alphabet contains a prediction made by the bandit itself, and every state is probed with 'query, equal-count arm swap, query'; n_jobs=2 runs through the joblib model of mcx/sched.py (isolated pickled workers) whose conformance with real joblib is checked in C05; KNearest states with fewer rows than k are out of domain; label type 'mixed' (numeric arms, a str arm added later)",
   ref="DESIGN.md section 7 (C08)"),
 "C09": dict(
   technique="explicit-state BFS (same search as C08) extended with tie and near-tie training sets; per-state differential check predict vs arg-max of predict_expectations from the same stream position",
   text="In every fitted state of the bounded search, for every query size, predict and predict_expectations are executed on two deep copies (same model, same stream position) and compared row by row against the first-maximum rule; exact ties (unobserved arms, zero rewards) and near ties (means differing by 2^-30, both arm orders) are part of the alphabet.",
   note="depth 3/4 with predictions in the alphabet and the post-query arm-swap probe; TreeBandit+EpsilonGreedy(eps>0) excluded as in the statement; rows whose expectations contain NaN only require a current arm",
   ref="DESIGN.md section 7 (C09)"),
 "C10": dict(
   technique="explicit-state BFS over the real bandit; in every fitted state: query programs x continuations enumerated exhaustively, queried copy vs never-queried twin after generator positions are aligned by object-graph path",
   text="For every reachable state within the bound, every query program of the alphabet and every continuation up to the continuation depth, the bandit that answered queries and its untouched twin must give identical outputs afterwards (n_jobs=1, and n_jobs=2 with thread and process semantics through the joblib model).",
   note="BFS depth 2/3, continuation depth 2; bit-identity of the complete object graph after generator alignment decides all futures, otherwise continuations are compared; where queries re-wire generator objects (not observable by itself) only randomness-free outputs are compared and the rest is counted as skipped; the shared warm-start operation has tied feature vectors",
   ref="DESIGN.md section 7 (C10)"),
 "C19": dict(
   technique="explicit-state BFS over the real bandit (unfitted states included); per state: copy methods x continuations enumerated exhaustively, original vs copy differential oracle, plus restore in a fresh interpreter with another hash seed",
   text="Every state reachable within the bound is deep-copied, pickled with protocols 2..5 and restored (protocol 4 also in a fresh interpreter); every continuation up to the continuation depth must give identical outputs on original and copy, and training/querying the copy must leave the original unchanged.",
   note="BFS depth 2 (quick) / 3 (thorough, int labels), continuation depth 1; the original is rebuilt from its history for every comparison and never copied; quick tier uses deepcopy, protocol 5 and the fresh-interpreter protocol-4 restore; binarizers are module-level functions; Thompson Sampling binarizer histories (add_arm with a binarizer, non-binary continuations); five combinations with n_jobs=2 (joblib model)",
   ref="DESIGN.md section 7 (C19)"),
}
NOT_APPLICABLE = []

def main():
    props = [json.loads(l)["id"] for l in open(os.path.join(HERE, "properties.jsonl"))]
    checks = []
    for pid in props:
        if pid not in CHECKS:
            continue
        c = CHECKS[pid]
        checks.append({
            "property_id": pid,
            "quick_cmd": "./check %s --tier quick" % pid,
            "thorough_cmd": "./check %s --tier thorough" % pid,
            "evidence_file": "/verif/evidence/%s.json" % pid,
            "replay_cmd_template": "./check %s --replay {path}" % pid,
            "engine": "mcx",
            "level_claimed": {"category": "model_checking", "text": c["text"], "design_ref": c["ref"]},
            "level_note": c["note"],
            "technique": c["technique"],
        })
    na = list(NOT_APPLICABLE)
    for pid in props:
        if pid not in CHECKS and pid not in [n["property_id"] for n in na]:
            na.append({"property_id": pid, "reason": "check not built yet (work in progress); planned as a bounded exhaustive check, see DESIGN.md section 7"})
    man = {
        "version": 1,
        "setup_cmd": "/venv/bin/python -c \"import sys; sys.path.insert(0, '/repo'); import mabwiser.mab, numpy, sklearn, scipy, pandas, joblib\"",
        "hooks": {"guard": "MABWISER_VERIF", "enable": "no source hooks exist: every observation point is reachable from Python and joblib is replaced by monkeypatching from the harness process; nothing in /repo reads the guard",
                  "baseline_off_cmd": BASE, "source_commits": [], "add_only": True},
        "engines": [{"name": "mcx", "path": "/verif/mcx", "serves_properties": [c["property_id"] for c in checks],
                     "kind_free_text": "hand-written explicit-state / bounded-exhaustive explorer over the real Python implementation (BFS with canonical state digests, product enumeration, preemption-bounded schedule exploration), run with /venv/bin/python against /repo's working tree"}],
        "checks": checks,
        "notes": "Every check: ./check <ID> --tier quick|thorough ; honours VERIF_SEED, VERIF_TIER, MABWISER_REPO. Known findings: /verif/KNOWN_FINDINGS.txt.",
        "not_applicable": na,
    }
    json.dump(man, open(os.path.join(HERE, "MANIFEST.json"), "w"), indent=1)
    print("MANIFEST.json: %d checks, %d not_applicable" % (len(checks), len(na)))

if __name__ == "__main__":
    main()
