"""Regenerates /verif/MANIFEST.json from the table below (keeps it valid at all times)."""
import json, os, sys
HERE = os.path.dirname(os.path.dirname(os.path.abspath(__file__)))
BASE = json.load(open("/root/.vp/BASELINE.json"))["cmd"]

CHECKS = {
 "C07": dict(
   technique="explicit-state BFS over the real bandit (prior histories, canonical-digest de-duplication) x exhaustive D/continuation alphabet; differential oracle against a freshly constructed bandit",
   text="Every prior history up to the depth bound over {fit, partial_fit, add_arm, remove_arm, warm_start, predict}, for every policy combination, is followed by fit(D) for every D of the alphabet and every one-step continuation; the refitted bandit must be observationally equal to a fresh one fit on D from the same stream position. Exhaustive within the stated alphabet, executed on the implementation itself.",
   note="alphabet: 2-3 arms, 5 data sets D, depth 2 (quick) / 3 (thorough); LinTS compared on expectations at alpha=1e-9 where generator identities differ; scikit-learn trusted",
   ref="DESIGN.md section 7 (C07)"),
}
NOT_APPLICABLE = []

def main():
    props = [json.loads(l)["id"] for l in open(os.path.join(HERE, "properties.jsonl"))]
    checks = []
    for pid in props:
        if pid not in CHECKS:
            continue
        c = CHECKS[pid]
        checks.append({
            "property_id": pid,
            "quick_cmd": "./check %s --tier quick" % pid,
            "thorough_cmd": "./check %s --tier thorough" % pid,
            "evidence_file": "/verif/evidence/%s.json" % pid,
            "replay_cmd_template": "./check %s --replay {path}" % pid,
            "engine": "mcx",
            "level_claimed": {"category": "model_checking", "text": c["text"], "design_ref": c["ref"]},
            "level_note": c["note"],
            "technique": c["technique"],
        })
    na = list(NOT_APPLICABLE)
    for pid in props:
        if pid not in CHECKS and pid not in [n["property_id"] for n in na]:
            na.append({"property_id": pid, "reason": "check not built yet (work in progress); planned as a bounded exhaustive check, see DESIGN.md section 7"})
    man = {
        "version": 1,
        "setup_cmd": "/venv/bin/python -c \"import sys; sys.path.insert(0, '/repo'); import mabwiser.mab, numpy, sklearn, scipy, pandas, joblib\"",
        "hooks": {"guard": "MABWISER_VERIF", "enable": "no source hooks exist: every observation point is reachable from Python and joblib is replaced by monkeypatching from the harness process; nothing in /repo reads the guard",
                  "baseline_off_cmd": BASE, "source_commits": [], "add_only": True},
        "engines": [{"name": "mcx", "path": "/verif/mcx", "serves_properties": [c["property_id"] for c in checks],
                     "kind_free_text": "hand-written explicit-state / bounded-exhaustive explorer over the real Python implementation (BFS with canonical state digests, product enumeration, preemption-bounded schedule exploration), run with /venv/bin/python against /repo's working tree"}],
        "checks": checks,
        "notes": "Every check: ./check <ID> --tier quick|thorough ; honours VERIF_SEED, VERIF_TIER, MABWISER_REPO. Known findings: /verif/KNOWN_FINDINGS.txt.",
        "not_applicable": na,
    }
    json.dump(man, open(os.path.join(HERE, "MANIFEST.json"), "w"), indent=1)
    print("MANIFEST.json: %d checks, %d not_applicable" % (len(checks), len(na)))

if __name__ == "__main__":
    main()
