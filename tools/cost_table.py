#!/usr/bin/env python3
"""Prints the quick-tier cost table of DESIGN.md section 11 from the evidence files of the last run."""
import json, os, glob, sys
here = os.path.dirname(os.path.dirname(os.path.abspath(__file__)))
print("| check | tier | wall | cpu | states | transitions | evaluations (non-trivial) |")
print("|---|---|---|---|---|---|---|")
for f in sorted(glob.glob(os.path.join(here, "evidence", *(sys.argv[1:2]), "C*.json"))):
    e = json.load(open(f))
    c = e["coverage"]
    wall = sum(c.get("phases_s", {}).values())
    print("| %s | %s | %d s | %d s | %s | %s | %s (%s) |" % (
        e.get("property_id", os.path.basename(f)[:3]), e.get("tier", "?"), wall, c.get("cpu_s", 0),
        c.get("states", e.get("states", "?")), c.get("transitions", e.get("transitions", "?")),
        c.get("evaluations", "?"), c.get("distinct_nontrivial", "?")))
