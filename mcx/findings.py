"""Known findings: attribution is by mechanism.

A violation is reported as KNOWN-FINDING only if (a) /verif/KNOWN_FINDINGS.txt lists the
finding for that property, (b) the finding's trigger predicate holds on the witness and
(c) re-running the same witness with the finding's shim (the in-memory repair of exactly
that defect, applied by monkeypatch in this process only) satisfies the oracle.  Anything
else is a VIOLATION.  The file is never written at run time; 'fixed:' lines suppress
nothing."""
import contextlib
import os
import re

from . import env

import numpy as np


def _lp(w):
    cfg = w.get("cfg") or {}
    return (cfg.get("lp") or [None, {}])


def _np(w):
    cfg = w.get("cfg") or {}
    return cfg.get("np") or [None, {}]


# ---------------------------------------------------------------- F-C02-a
def _trig_c02a(w):
    name, kw = _lp(w)
    return name in ("LinUCB", "LinTS") and kw.get("l2_lambda", 1.0) != 1


@contextlib.contextmanager
def _shim_c02a():
    from mabwiser.linear import _RidgeRegression
    orig = _RidgeRegression.init

    def init(self, num_features):
        orig(self, num_features)
        self.A_inv = np.identity(num_features) / self.l2_lambda
    _RidgeRegression.init = init
    try:
        yield
    finally:
        _RidgeRegression.init = orig


# ---------------------------------------------------------------- F-C05-a
def _trig_c05a(w):
    name, kw = _lp(w)
    if _np(w)[0] != "TreeBandit":
        return False
    return name == "ThompsonSampling" or (name == "EpsilonGreedy" and kw.get("epsilon", 0.1) > 0)


@contextlib.contextmanager
def _shim_c05a():
    """Row-local TreeBandit prediction: the leaf policy and the epsilon draw use the row's generator."""
    from copy import deepcopy
    from mabwiser import treebandit as tb
    from mabwiser.utils import argmax, create_rng
    orig = tb._TreeBandit._predict_contexts

    def _predict_contexts(self, contexts, is_predict, seeds=None, start_index=None):
        arm_to_tree = deepcopy(self.arm_to_tree)
        arm_to_rewards = deepcopy(self.arm_to_leaf_to_rewards)
        arm_to_expectation = deepcopy(self.arm_to_expectation)
        arms = deepcopy(self.arms)
        predictions = [None] * len(contexts)
        for index, row in enumerate(contexts):
            rng = create_rng(seed=seeds[index])
            for arm in arms:
                if arm_to_rewards[arm]:
                    leaf_index = arm_to_tree[arm].apply([row])[0]
                    leaf_rewards = arm_to_rewards[arm][leaf_index]
                    leaf_lp = self._create_leaf_lp(arm)
                    leaf_lp.rng = rng
                    leaf_lp.fit(np.asarray([arm] * len(leaf_rewards)), leaf_rewards)
                    arm_to_expectation[arm] = leaf_lp.predict_expectations()[arm]
            if is_predict:
                if isinstance(self.lp, tb._EpsilonGreedy) and rng.rand() < self.lp.epsilon:
                    predictions[index] = arms[rng.randint(0, len(arms))]
                else:
                    predictions[index] = argmax(arm_to_expectation)
            else:
                predictions[index] = arm_to_expectation.copy()
        return predictions
    tb._TreeBandit._predict_contexts = _predict_contexts
    try:
        yield
    finally:
        tb._TreeBandit._predict_contexts = orig


# ---------------------------------------------------------------- F-C14-a
def _trig_c14a(w):
    name, kw = _lp(w)
    has_bin = bool(kw.get("binarizer")) or any(
        isinstance(op, list) and op and op[0] == "add_arm" and len(op) > 2 and op[2]
        for op in (w.get("history") or []))
    return _np(w)[0] == "TreeBandit" and name == "ThompsonSampling" and has_bin


@contextlib.contextmanager
def _shim_c14a():
    from mabwiser import treebandit as tb
    orig = tb._TreeBandit._create_leaf_lp

    def _create_leaf_lp(self, arm):
        leaf = orig(self, arm)
        if isinstance(leaf, tb._ThompsonSampling):
            leaf.is_contextual_binarized = True      # leaf rewards are stored already converted
        return leaf
    tb._TreeBandit._create_leaf_lp = _create_leaf_lp
    try:
        yield
    finally:
        tb._TreeBandit._create_leaf_lp = orig


MATCHERS = {
    "F-C02-a": {"props": ("C02",), "trigger": _trig_c02a, "shim": _shim_c02a},
    "F-C05-a": {"props": ("C05",), "trigger": _trig_c05a, "shim": _shim_c05a},
    "F-C14-a": {"props": ("C14",), "trigger": _trig_c14a, "shim": _shim_c14a},
}

_LINE = re.compile(r"^finding:\s+property=(\S+)\s+key=(\S+)\s+(.*)$")
_cache = None


def listed():
    """{(property, key): description} of the open findings listed in KNOWN_FINDINGS.txt."""
    global _cache
    if _cache is None:
        out = {}
        path = os.path.join(env.VERIF, "KNOWN_FINDINGS.txt")
        if os.path.exists(path):
            for line in open(path):
                m = _LINE.match(line.strip())
                if m:
                    out[(m.group(1), m.group(2))] = m.group(3)
        _cache = out
    return _cache


def classify(prop, witness, replay):
    """Key of the listed finding that explains this witness, else None."""
    for (p, key), _desc in listed().items():
        if p != prop or key not in MATCHERS:
            continue
        m = MATCHERS[key]
        if prop not in m["props"]:
            continue
        try:
            if not m["trigger"](witness):
                continue
            with m["shim"]():
                msgs = replay(witness)
        except Exception:                                   # noqa: BLE001
            continue
        if not msgs:
            return key
    return None
