"""Small fixed data sets addressed relative to a bandit's *current* arm list."""

X6 = [[0, 0], [0, 1], [1, 0], [1, 1], [2, 0], [0, 2]]
X8 = [[0, 0], [0, 1], [1, 0], [1, 1], [2, 0], [0, 2], [2, 1], [1, 2]]
X3C = [[0, 0, 1], [1, 0, 0], [0, 1, 0], [1, 1, 1]]
R6 = [1, 0, 1, 1, 0, 1]
R8 = [1, 0, 1, 1, 0, 1, 0, 0]
Q2 = [[0, 0], [1, 1], [2, 2]]
Q3C = [[0, 0, 0], [1, 1, 1], [1, 0, 0]]


def by_pattern(arms, pattern):
    return [arms[i % len(arms)] for i in pattern]


def batch(kind, arms, pattern, rewards, contexts, context_free):
    """["fit"|"partial_fit", D, R, X|None] with decisions arms[pattern[i] mod k]."""
    n = len(pattern)
    # contexts are passed as floats: np.asarray then yields a C-contiguous float64 array, which the library stores
    # without copying - the path on which aliasing between its caches and its history can occur (integer contexts
    # are what C03 / C06 / C11 / C12 use)
    return [kind, by_pattern(arms, pattern), list(rewards[:n]),
            None if context_free else [[float(v) for v in r] for r in contexts[:n]]]
