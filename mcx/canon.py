"""Canonical structural form of a live bandit object graph.

digest(obj)       BLAKE2 of the structural normal form of the complete graph reachable from obj
tokens(obj)       the normal form itself (list of strings), for diagnostics / diffs
gen_paths(obj)    every numpy Generator reachable from obj, keyed by access path
sync_streams(s,d) copy generator positions from s to d (same path sets and aliasing required)

Two graphs get the same digest only if their complete normal forms are identical: class
names, attribute names, dict insertion order, array dtype/shape/field bytes, generator
positions and the aliasing between mutable objects.  An object of an unknown kind is a hard
error (never a silent merge)."""
import functools
import hashlib
import types
from collections import defaultdict

import numpy as np


class UnknownObject(TypeError):
    pass


_ATOMS = (type(None), bool, int, str, bytes)


def _float_token(x):
    x = float(x)
    if x != x:
        return "fnan"
    return "f" + x.hex()


def _walk(obj, memo, out, skip_gen, path, sort_dicts=False):
    """Append the normal form of obj to out (list of str)."""
    t = type(obj)
    if t in _ATOMS:
        out.append(t.__name__[0] + ":" + repr(obj))
        return
    if t is float:
        out.append(_float_token(obj))
        return
    if isinstance(obj, np.generic):
        if isinstance(obj, np.floating):
            out.append("nf:" + obj.dtype.str + _float_token(obj))
        elif isinstance(obj, (np.integer, np.bool_)):
            out.append("ni:" + obj.dtype.str + repr(obj.item()))
        elif isinstance(obj, (np.str_, np.bytes_)):
            out.append("ns:" + repr(obj.item()))
        else:
            out.append("ng:" + obj.dtype.str + repr(obj.tobytes()))
        return
    if isinstance(obj, (types.FunctionType, types.BuiltinFunctionType, types.MethodDescriptorType, type)):
        out.append("fn:" + getattr(obj, "__module__", "?") + "." + getattr(obj, "__qualname__", repr(obj)))
        return
    if isinstance(obj, types.MethodType):
        out.append("meth:" + obj.__func__.__qualname__)
        _walk(obj.__self__, memo, out, skip_gen, path + ("__self__",), sort_dicts)
        return

    oid = id(obj)
    if oid in memo:
        out.append("ref:%d" % memo[oid][0])
        return
    # keep obj alive in memo so ids are not recycled during the walk
    memo[oid] = (len(memo), obj)

    if isinstance(obj, np.ndarray):
        out.append("arr:%s:%s" % (obj.dtype.str if obj.dtype.fields is None else "struct", obj.shape))
        if obj.dtype.fields is not None:
            for name in obj.dtype.names:
                out.append("field:" + name)
                out.append(np.ascontiguousarray(obj[name]).tobytes().hex())
        elif obj.dtype == object:
            for i, v in enumerate(obj.ravel().tolist()):
                _walk(v, memo, out, skip_gen, path + (i,), sort_dicts)
        else:
            a = np.ascontiguousarray(obj)
            if a.dtype.kind == "f":
                # all NaNs are one value; -0.0 stays distinct from 0.0 (it is observable through division)
                a = a.copy()
                a[np.isnan(a)] = np.nan
            out.append(a.tobytes().hex())
        return
    if isinstance(obj, np.random.Generator):
        if skip_gen:
            out.append("gen:*")
        else:
            out.append("gen:")
            _walk(obj.bit_generator.state, memo, out, skip_gen, path + ("state",), sort_dicts)
        return
    if isinstance(obj, np.random.RandomState):
        out.append("rs:")
        if not skip_gen:
            st = obj.get_state(legacy=False)
            _walk(st, memo, out, skip_gen, path + ("state",), sort_dicts)
        return
    if isinstance(obj, functools.partial):
        out.append("partial:")
        _walk(obj.func, memo, out, skip_gen, path + ("func",), sort_dicts)
        _walk(obj.args, memo, out, skip_gen, path + ("args",), sort_dicts)
        _walk(obj.keywords, memo, out, skip_gen, path + ("kw",), sort_dicts)
        return
    if isinstance(obj, dict):
        out.append("dict:%s:%d" % (type(obj).__name__, len(obj)))
        if isinstance(obj, defaultdict):
            _walk(obj.default_factory, memo, out, skip_gen, path + ("default_factory",), sort_dicts)
        items = list(obj.items())         # insertion order is behaviour ...
        if sort_dicts:                    # ... except where the caller compares contents only
            items.sort(key=lambda kv: repr(kv[0]))
        for k, v in items:
            _walk(k, memo, out, skip_gen, path + ("key",), sort_dicts)
            _walk(v, memo, out, skip_gen, path + (k,), sort_dicts)
        return
    if isinstance(obj, (list, tuple)):
        out.append("%s:%s:%d" % ("list" if isinstance(obj, list) else "tuple", type(obj).__name__, len(obj)))
        for i, v in enumerate(obj):
            _walk(v, memo, out, skip_gen, path + (i,), sort_dicts)
        return
    if isinstance(obj, (set, frozenset)):
        out.append("set:%d" % len(obj))
        parts = []
        for v in obj:
            sub = []
            _walk(v, memo, sub, skip_gen, path + ("elem",), sort_dicts)
            parts.append("|".join(sub))
        out.extend(sorted(parts))
        return
    mod = type(obj).__module__ or ""
    if mod.startswith("sklearn.tree._tree") or type(obj).__name__ == "Tree":
        red = obj.__reduce__()
        out.append("cytree:")
        _walk(tuple(red[1]), memo, out, skip_gen, path + ("args",), sort_dicts)
        _walk(red[2], memo, out, skip_gen, path + ("state",), sort_dicts)
        return
    if mod.startswith(("mabwiser", "sklearn", "mcx")) or hasattr(obj, "__dict__"):
        out.append("obj:" + mod + "." + type(obj).__qualname__)
        if mod.startswith("sklearn") and hasattr(obj, "__getstate__"):
            state = obj.__getstate__()
        else:
            state = getattr(obj, "__dict__", None)
        if not isinstance(state, dict):
            raise UnknownObject("no dict state for %r at %r" % (type(obj), path))
        _walk(state, memo, out, skip_gen, path, sort_dicts)
        return
    if isinstance(obj, (range, slice, complex, np.dtype)):
        out.append("atom:" + repr(obj))
        return
    # generic structural fallback: the object's own reduction (class, constructor arguments, state, items)
    try:
        red = obj.__reduce_ex__(4)
    except Exception as e:                                    # noqa: BLE001
        raise UnknownObject("cannot canonicalise %r at %r (%s)" % (type(obj), path, e))
    if isinstance(red, str):
        out.append("global:" + red)
        return
    out.append("reduced:" + (type(obj).__module__ or "") + "." + type(obj).__qualname__)
    _walk(red[0], memo, out, skip_gen, path + ("__reduce__",), sort_dicts)
    _walk(tuple(red[1]) if red[1] is not None else (), memo, out, skip_gen, path + ("args",), sort_dicts)
    if len(red) > 2 and red[2] is not None:
        _walk(red[2], memo, out, skip_gen, path + ("state",), sort_dicts)
    if len(red) > 3 and red[3] is not None:
        _walk(list(red[3]), memo, out, skip_gen, path + ("listitems",), sort_dicts)
    if len(red) > 4 and red[4] is not None:
        _walk(list(red[4]), memo, out, skip_gen, path + ("dictitems",), sort_dicts)


def tokens(obj, skip_generators=False, sort_dicts=False):
    out = []
    _walk(obj, {}, out, skip_generators, (), sort_dicts)
    return out


def digest(obj, skip_generators=False, sort_dicts=False):
    h = hashlib.blake2b(digest_size=16)
    for tok in tokens(obj, skip_generators, sort_dicts):
        h.update(tok.encode("utf-8", "surrogatepass"))
        h.update(b"\x00")
    return h.hexdigest()


def first_difference(a, b, skip_generators=False):
    ta, tb = tokens(a, skip_generators), tokens(b, skip_generators)
    for i, (x, y) in enumerate(zip(ta, tb)):
        if x != y:
            return i, ta[max(0, i - 3):i + 2], tb[max(0, i - 3):i + 2]
    if len(ta) != len(tb):
        return min(len(ta), len(tb)), ta[-3:], tb[-3:]
    return None


# ---------------------------------------------------------------- generators by path

def _gen_walk(obj, path, seen, found):
    if isinstance(obj, np.random.Generator):
        found.append((path, obj))
        return
    t = type(obj)
    if t in _ATOMS or t is float or isinstance(obj, (np.generic, np.ndarray, type,
                                                      types.FunctionType, types.BuiltinFunctionType)):
        return
    oid = id(obj)
    if oid in seen:
        return
    seen[oid] = obj
    if isinstance(obj, dict):
        for k, v in obj.items():
            _gen_walk(v, path + (repr(k),), seen, found)
        return
    if isinstance(obj, (list, tuple)):
        for i, v in enumerate(obj):
            _gen_walk(v, path + (i,), seen, found)
        return
    if isinstance(obj, (set, frozenset)):
        return
    if isinstance(obj, functools.partial):
        return
    d = getattr(obj, "__dict__", None)
    if isinstance(d, dict):
        for k, v in d.items():
            _gen_walk(v, path + ("." + k,), seen, found)


def gen_paths(obj):
    """[(path, Generator)] for every generator object (first path by which it is reached)
    plus, for aliasing, every further path is NOT repeated: objects are visited once."""
    found = []
    _gen_walk(obj, (), {}, found)
    return found


def all_gen_paths(obj):
    """{path: id-rank} for every path that leads to a generator (aliases included)."""
    out = {}
    rank = {}

    def walk(o, path, stack):
        if isinstance(o, np.random.Generator):
            out[path] = rank.setdefault(id(o), len(rank))
            return
        t = type(o)
        if t in _ATOMS or t is float or isinstance(o, (np.generic, np.ndarray, type, functools.partial,
                                                        types.FunctionType, types.BuiltinFunctionType,
                                                        set, frozenset)):
            return
        if id(o) in stack:
            return
        stack = stack | {id(o)}
        if isinstance(o, dict):
            for k, v in o.items():
                walk(v, path + (repr(k),), stack)
        elif isinstance(o, (list, tuple)):
            for i, v in enumerate(o):
                walk(v, path + (i,), stack)
        else:
            d = getattr(o, "__dict__", None)
            if isinstance(d, dict):
                for k, v in d.items():
                    walk(v, path + ("." + k,), stack)
    walk(obj, (), frozenset())
    return out


def _resolve(obj, path):
    for p in path:
        if isinstance(p, int):
            obj = obj[p]
        elif p.startswith("."):
            obj = obj.__dict__[p[1:]]
        else:
            for k in obj:
                if repr(k) == p:
                    obj = obj[k]
                    break
            else:
                raise KeyError(p)
    return obj


def sync_streams(src, dst, strict=False, ignore=()):
    """Give every generator of dst the position of the generator found at the same access
    path in src.  Returns False (and copies nothing) when that is not well defined: the
    two graphs have different generator paths, or one generator object of dst stands at
    paths whose generators in src are at different positions.  strict=True additionally
    requires the same aliasing between generator objects in both graphs (needed when the
    aliased generators are all drawn from, as for LinTS: equal positions then do not imply
    equal future draws)."""
    ps, pd = all_gen_paths(src), all_gen_paths(dst)
    if ignore:      # generators that are never drawn from (e.g. the per-arm copies LinGreedy/LinUCB carry)
        ps = {p: r for p, r in ps.items() if not any(i in p for i in ignore)}
        pd = {p: r for p, r in pd.items() if not any(i in p for i in ignore)}
    if set(ps) != set(pd):
        return False
    if strict and ps != pd:
        return False
    plan = {}
    for path in pd:
        g_src, g_dst = _resolve(src, path), _resolve(dst, path)
        st = g_src.bit_generator.state
        if id(g_dst) in plan:
            if plan[id(g_dst)][1] != st:
                return False
        else:
            plan[id(g_dst)] = (g_dst, st)
    for g_dst, st in plan.values():
        g_dst.bit_generator.state = st
    return True
