"""Accumulators, evidence files, replay files."""
import hashlib
import json
import os
import time
from collections import Counter

from . import env
from . import ops
from . import findings

MAX_VIOLATIONS_KEPT = 12        # per shard (all are counted)
MAX_SAMPLES = 3


def h64(x):
    if not isinstance(x, (bytes, str)):
        x = json.dumps(ops.jsonable(x), sort_keys=True, default=repr)
    if isinstance(x, str):
        x = x.encode("utf-8", "surrogatepass")
    return int.from_bytes(hashlib.blake2b(x, digest_size=8).digest(), "big")


class Acc:
    """Per-shard accumulator.  A shard is one worker-sized piece of a check's case space."""

    def __init__(self, prop, replay=None, shard=None):
        self.prop = prop
        self.replay = replay
        self.shard = shard
        self.states = set()
        self.export_states = False      # True: ship the state hashes to the parent for an exact union over shards
        self.traces = 0
        self.evaluations = 0
        self.nontrivial = set()
        self.outcomes = set()
        self.skipped = Counter()
        self.counters = Counter()
        self.samples = []
        self.violations = []
        self.n_violations = 0
        self.sig_counts = Counter()
        self.known = Counter()
        self.known_samples = {}
        self._h = hashlib.blake2b(digest_size=16)
        self._t0 = ops.COUNTERS["transitions"]
        self._o0 = ops.COUNTERS["observations"]
        self.t_start = time.time()

    # -- coverage bookkeeping
    def state(self, key):
        k = key if isinstance(key, int) else h64(key)
        new = k not in self.states
        self.states.add(k)
        return new

    def case(self, nontrivial_key=None):
        """One evaluated case; nontrivial_key (hashable/JSON-able) given iff it is non-trivial by the
        check's stated rule.  Distinctness is by that key."""
        self.evaluations += 1
        if nontrivial_key is not None:
            self.nontrivial.add(nontrivial_key if isinstance(nontrivial_key, int) else h64(nontrivial_key))

    def outcome(self, obs):
        k = h64(obs)
        self.outcomes.add(k)
        self._h.update(k.to_bytes(8, "big"))

    def sample(self, s):
        if len(self.samples) < MAX_SAMPLES:
            self.samples.append(ops.jsonable(s))

    def skip(self, reason, n=1):
        self.skipped[reason] += n

    # -- violations
    def violation(self, sig, witness, message):
        witness = ops.jsonable(witness)
        fid = None
        if self.replay is not None:
            fid = findings.classify(self.prop, witness, self.replay)
        if fid is not None:
            self.known[fid] += 1
            self.known_samples.setdefault(fid, {"witness": witness, "message": str(message)[:600]})
            return
        self.n_violations += 1
        self.sig_counts[sig] += 1
        if len(self.violations) < MAX_VIOLATIONS_KEPT and \
                sum(1 for v in self.violations if v["sig"] == sig) < 3:
            self.violations.append({"sig": sig, "witness": witness, "message": str(message)[:2000]})

    def result(self):
        return {
            "shard": self.shard,
            "state_set": frozenset(self.states) if self.export_states else None,
            "nontrivial_set": frozenset(self.nontrivial) if self.export_states else None,
            "states": len(self.states),
            "transitions": ops.COUNTERS["transitions"] - self._t0,
            "api_calls": ops.COUNTERS["observations"] - self._o0,
            "traces": self.traces,
            "evaluations": self.evaluations,
            "nontrivial": len(self.nontrivial),
            "outcomes": len(self.outcomes),
            "skipped": dict(self.skipped),
            "counters": dict(self.counters),
            "samples": self.samples,
            "violations": self.violations,
            "n_violations": self.n_violations,
            "sig_counts": dict(self.sig_counts),
            "known": dict(self.known),
            "known_samples": self.known_samples,
            "digest": self._h.hexdigest(),
            "wall": time.time() - self.t_start,
        }


def merge(results):
    tot = {"states": 0, "transitions": 0, "api_calls": 0, "traces": 0, "evaluations": 0, "nontrivial": 0,
           "outcomes": 0, "skipped": Counter(), "counters": Counter(), "samples": [], "violations": [],
           "n_violations": 0, "sig_counts": Counter(), "known": Counter(), "known_samples": {}, "shards": 0, "cpu_s": 0.0}
    union, union_nt, exact = set(), set(), bool(results)
    for r in results:
        if r.get("state_set") is None:
            exact = False
        else:
            union |= r["state_set"]
            union_nt |= r["nontrivial_set"]
    for r in results:
        tot["shards"] += 1
        for k in ("states", "transitions", "api_calls", "traces", "evaluations", "nontrivial", "outcomes",
                  "n_violations"):
            tot[k] += r[k]
        tot["skipped"].update(r["skipped"])
        tot["counters"].update(r["counters"])
        tot["known"].update(r["known"])
        tot["sig_counts"].update(r.get("sig_counts", {}))
        for k, v in r["known_samples"].items():
            tot["known_samples"].setdefault(k, v)
        tot["violations"].extend(r["violations"])
        tot["cpu_s"] += r["wall"]
        for s in r["samples"]:
            if len(tot["samples"]) < 6:
                tot["samples"].append(s)
    if exact:           # shards overlap by construction: count distinct states over the whole run
        tot["states"], tot["nontrivial"] = len(union), len(union_nt)
    return tot


def write_replay(prop, violation):
    rdir = os.environ.get("VERIF_REPLAY_DIR") or os.path.join(env.VERIF, "replays")
    os.makedirs(rdir, exist_ok=True)
    body = {"property": prop, "sig": violation["sig"], "witness": violation["witness"],
            "message": violation["message"],
            "how_to_replay": "./check %s --replay <this file>" % prop}
    text = json.dumps(body, indent=1, sort_keys=True, default=repr)
    name = "%s-%s.json" % (prop, hashlib.blake2b(text.encode(), digest_size=6).hexdigest())
    path = os.path.join(rdir, name)
    with open(path, "w") as f:
        f.write(text + "\n")
    return path


def write_evidence(prop, tier, seed, tot, wall, meta, exhaustive=True, error=None):
    cov = {
        "states": max(int(tot["states"]), 0),
        "transitions": int(tot["transitions"]),
        "traces_validated_against_impl": int(tot["traces"]),
        "evaluations": int(tot["evaluations"]),
        "distinct_nontrivial": int(tot["nontrivial"]),
        "rule": meta.get("rule", ""),
        "samples": tot["samples"] or ["(no case was generated)"],
        "exhaustive": bool(exhaustive and error is None),
        "distinct_outcomes": int(tot["outcomes"]),
        "api_observation_calls": int(tot["api_calls"]),
        "shards": int(tot["shards"]),
        "cpu_s": round(tot["cpu_s"], 1),
        "skipped": dict(tot["skipped"]),
        "counters": dict(tot["counters"]),
        "bounds": meta.get("bounds", {}),
        "oracle": meta.get("oracle", ""),
        "known_finding_hits": dict(tot["known"]),
        "violation_signatures": dict(sorted(tot["sig_counts"].items(), key=lambda kv: -kv[1])[:400]),
        "determinism": meta.get("determinism", ""),
        "phases_s": meta.get("phases_s", {}),
        "repo": env.REPO,
    }
    if error:
        cov["harness_error"] = error
    ev = {"property_id": prop, "tier": tier, "seed": int(seed), "level": "model_checking", "coverage": cov,
          "assumptions": meta.get("assumptions", []), "wall_s": round(wall, 2),
          "violations": int(tot["n_violations"])}
    evdir = os.environ.get("VERIF_EVIDENCE_DIR") or os.path.join(env.VERIF, "evidence")
    os.makedirs(evdir, exist_ok=True)
    path = os.path.join(evdir, prop + ".json")
    tmp = path + ".tmp"
    with open(tmp, "w") as f:
        json.dump(ev, f, indent=1, sort_keys=True, default=repr)
        f.write("\n")
    os.replace(tmp, path)
    return path
