"""Running the Simulator under harness control and replaying a run through the public API."""
from . import env  # noqa: F401
import copy
import logging
import math

import numpy as np
from sklearn.model_selection import train_test_split

from . import ops

GRID = [[0, 0], [0, 1], [1, 0], [1, 1], [2, 0], [0, 2], [2, 1], [1, 2], [2, 2], [0, 0], [1, 1], [2, 0]]
# unequal column scales, no duplicate rows: variance / covariance based metrics are well defined and sensitive
FGRID = [[0.1, 3.0], [1.2, 1.0], [2.5, 7.0], [0.7, 4.0], [1.9, 0.5], [3.1, 6.0], [0.4, 2.0], [2.2, 5.5], [1.5, 3.5], [2.8, 1.5],
         [0.9, 6.5], [3.4, 2.5]]
# one-decimal contexts: sums such as 0.1 + 0.2 = 0.30000000000000004 lie within float32 resolution of a round radius
DGRID = [[0.1, 0.2], [0.4, 0.2], [0.1, 0.5], [0.3, 0.3], [0.7, 0.1], [0.2, 0.6], [0.5, 0.5], [0.1, 0.1], [0.6, 0.3], [0.3, 0.1],
         [0.4, 0.4], [0.2, 0.2]]
MGRID = [[0, 0], [2, 2], [3, 0], [3, 3], [4, 0], [0, 0], [2, 2], [3, 0], [0, 0], [4, 0], [3, 3], [2, 2]]


def dataset(n, pattern, grid=GRID):
    """decisions / rewards / contexts for n rows.  pattern: 'alt' | 'blocks' | 'late2' (arm 2 only at the end)."""
    if pattern == "alt":
        dec = [1 + i % 2 for i in range(n)]
    elif pattern == "blocks":
        dec = [1 if i < n // 2 else 2 for i in range(n)]
    else:
        dec = [1] * (n - 2) + [2, 2]
    rew = [(i * 7 // 3 + i) % 2 for i in range(n)]
    return dec, rew, [list(grid[i % len(grid)]) for i in range(n)]


def run_sim(cfgs, dec, rew, X, params, used=False):
    """-> (sim, originals): originals are deep copies of the bandits taken before the Simulator saw them.
    used: every bandit has had an earlier life (fit on the first four rows, three predictions) before that."""
    from mabwiser.simulator import Simulator
    bandits = [("b%d" % i, ops.build(c)) for i, c in enumerate(cfgs)]
    if used:
        for (_n, m), c in zip(bandits, cfgs):
            if ops.is_context_free(c):
                m.fit(list(dec[:4]), list(rew[:4]))
                for _ in range(3):
                    m.predict()
            else:
                m.fit(list(dec[:4]), list(rew[:4]), [list(x) for x in X[:4]])
                m.predict([list(x) for x in X[1:4]])
            ops.COUNTERS["transitions"] += 2
    originals = [copy.deepcopy(m) for _n, m in bandits]
    cf = all(ops.is_context_free(c) for c in cfgs)
    try:
        sim = Simulator(bandits, list(dec), list(rew), None if cf else [list(x) for x in X],
                        test_size=params["test_size"], is_ordered=params["is_ordered"], batch_size=params["batch_size"],
                        seed=params["seed"], is_quick=params["is_quick"])
        sim.run()
        ops.COUNTERS["transitions"] += 1          # one simulation = one transition of the system under test
    finally:
        logging.getLogger().handlers.clear()
    return sim, originals


def split_indices(n, params, sim_test_indices):
    if params["is_ordered"]:
        train_size = int(n * (1 - params["test_size"]))
        return list(range(train_size)), list(range(train_size, n))
    tr, te = train_test_split(list(range(n)), test_size=params["test_size"], random_state=params["seed"])
    return list(tr), list(te)


def replay_api(mab, cfg, dec, rew, X, tr, te, batch):
    """Drive an identically configured bandit through the public API with the simulator's protocol."""
    cf = ops.is_context_free(cfg)
    nbr = cfg["np"] is not None and cfg["np"][0] in ("Radius", "KNearest", "LSHNearest")
    m = copy.deepcopy(mab)
    d, r = np.asarray(dec), np.asarray(rew)
    x = None if cf else np.asarray(X)
    if cf:
        m.fit(d[tr], r[tr])
    else:
        m.fit(d[tr], r[tr], x[tr])
    ops.COUNTERS["transitions"] += 1
    preds, exps = [], []
    batches = [te] if batch == 0 else [te[s:s + batch] for s in range(0, len(te), batch)]
    for b in batches:
        if cf:
            preds += [m.predict() for _ in b]
        else:
            if nbr:       # the simulator obtains expectations inside the prediction: one draw of row seeds per batch
                e = copy.deepcopy(m).predict_expectations(x[b])
            p = m.predict(x[b])
            preds += p if isinstance(p, list) else [p]
            if not nbr:
                e = m.predict_expectations(x[b])
            exps += e if isinstance(e, list) else [e]
        ops.COUNTERS["observations"] += 2
        if batch:
            ops.COUNTERS["transitions"] += 1
            if cf:
                m.partial_fit(d[b], r[b])
            else:
                m.partial_fit(d[b], r[b], x[b])
    return preds, exps


def exp_equal(sim_e, api_e):
    """Simulator reports {} for an empty neighbourhood where the API reports all-NaN."""
    if len(sim_e) != len(api_e):
        return False
    for a, b in zip(sim_e, api_e):
        b_nan = all(isinstance(v, float) and math.isnan(v) for v in b.values())
        if (a == {} or all(isinstance(v, float) and math.isnan(v) for v in a.values())) and b_nan:
            continue
        if list(a) != list(b):
            return False
        for k in a:
            if not (a[k] == b[k] or abs(a[k] - b[k]) <= 1e-9 * max(1.0, abs(b[k]))):
                return False
    return True
