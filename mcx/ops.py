"""Configurations, operations and observations, all JSON-serialisable so that every
explored case can be written out as a replay file and re-executed as a straight line of
public API calls.

config  {"arms": [...], "lp": [name, kwargs], "np": [name, kwargs] | None,
         "seed": int, "n_jobs": int, "backend": str | None}
op      ["fit", D, R, X|None(, {"r": dtype})] | ["partial_fit", D, R, X|None(, {"r": dtype})] | ["add_arm", a] |
        ["add_arm", a, binarizer-name] | ["remove_arm", a] | ["warm_start", {arm: feats}, q] |
        ["predict", Q|None] | ["predict_expectations", Q|None]
"""
from . import env  # noqa: F401  (must come first)
import copy
import math

import numpy as np
from mabwiser.mab import MAB, LearningPolicy, NeighborhoodPolicy

COUNTERS = {"transitions": 0, "observations": 0}


# ------------------------------------------------------------------ binarizers (module level: picklable)
BIN_CALLS = [0]          # number of binarizer invocations (the harness's binarizers count themselves)


def bin_ge2(arm, reward):
    BIN_CALLS[0] += 1
    return reward >= 2


def bin_le0(arm, reward):
    BIN_CALLS[0] += 1
    return reward <= 0


_THRESH = {1: 1, 2: 2, 3: 5, "a": 1, "b": 2, "c": 5, 1.0: 1, 2.0: 2, 3.0: 5}


def bin_arm_threshold(arm, reward):
    BIN_CALLS[0] += 1
    return reward >= _THRESH.get(arm, 2)


def bin_ge1(arm, reward):
    BIN_CALLS[0] += 1
    return reward >= 1


def bin_ge5(arm, reward):
    BIN_CALLS[0] += 1
    return reward >= 5


BINARIZERS = {f.__name__: f for f in (bin_ge2, bin_le0, bin_arm_threshold, bin_ge1, bin_ge5)}


def _resolve_kwargs(kw):
    out = {}
    for k, v in (kw or {}).items():
        if k == "binarizer" and isinstance(v, str):
            v = BINARIZERS[v]
        elif k == "tree_parameters" and isinstance(v, dict):
            v = dict(v)                       # never share a parameter dict between bandits
        elif k == "no_nhood_prob_of_arm" and v is not None:
            v = list(v)
        out[k] = v
    return out


def make_lp(spec):
    return getattr(LearningPolicy, spec[0])(**_resolve_kwargs(spec[1]))


def make_np(spec):
    if spec is None:
        return None
    return getattr(NeighborhoodPolicy, spec[0])(**_resolve_kwargs(spec[1]))


def build(cfg):
    return MAB(list(cfg["arms"]), make_lp(cfg["lp"]), make_np(cfg.get("np")),
               seed=cfg.get("seed", 123456), n_jobs=cfg.get("n_jobs", 1), backend=cfg.get("backend"))


def is_context_free(cfg):
    return cfg.get("np") is None and cfg["lp"][0] not in ("LinGreedy", "LinUCB", "LinTS")


def _fresh(x):
    return copy.deepcopy(x)


def apply(mab, op, count=True):
    """Execute one operation through the public API with freshly built arguments."""
    kind = op[0]
    if count:
        COUNTERS["transitions"] += 1
    if kind in ("fit", "partial_fit"):
        d, r = _fresh(op[1]), _fresh(op[2])
        x = _fresh(op[3]) if len(op) > 3 and op[3] is not None else None
        if len(op) > 4 and op[4] and op[4].get("r"):
            r = np.asarray(r, dtype=op[4]["r"])              # rewards handed over as an array of the named dtype
        if len(op) > 4 and op[4] and op[4].get("d"):
            d = np.asarray(d, dtype=op[4]["d"])              # decisions likewise
        if len(op) > 4 and op[4] and op[4].get("x0") is not None and x is not None:
            x = np.empty((0, op[4]["x0"]))                   # a zero-row context matrix of the given width
        if x is None:
            return getattr(mab, kind)(d, r)
        return getattr(mab, kind)(d, r, x)
    if kind == "add_arm":
        if len(op) > 2 and op[2] is not None:
            return mab.add_arm(op[1], BINARIZERS[op[2]] if isinstance(op[2], str) else op[2])
        return mab.add_arm(op[1])
    if kind == "remove_arm":
        return mab.remove_arm(op[1])
    if kind == "warm_start":
        feats = op[1]
        if isinstance(feats, list):           # JSON form: [[arm, features], ...]
            feats = {a: list(f) for a, f in feats}
        else:
            feats = {a: list(f) for a, f in feats.items()}
        return mab.warm_start(feats, op[2])
    if kind in ("predict", "predict_expectations"):
        q = _fresh(op[1]) if len(op) > 1 and op[1] is not None else None
        return getattr(mab, kind)() if q is None else getattr(mab, kind)(q)
    raise ValueError("unknown op %r" % (op,))


def run_history(cfg, history):
    mab = build(cfg)
    for op in history:
        apply(mab, op)
    return mab


# ------------------------------------------------------------------ observations
def norm(value):
    """Plain-Python, JSON-able, exactly comparable form of an API result."""
    if isinstance(value, dict):
        return {"__dict__": [[norm(k), norm(v)] for k, v in value.items()]}
    if isinstance(value, (list, tuple)):
        return [norm(v) for v in value]
    if isinstance(value, np.ndarray):
        return {"__ndarray__": norm(value.tolist())}
    if isinstance(value, (np.floating, float)):
        v = float(value)
        if v != v:
            return "nan"
        if math.isinf(v):
            return "inf" if v > 0 else "-inf"
        return v
    if isinstance(value, (np.integer,)):
        return int(value)
    if isinstance(value, (np.bool_,)):
        return bool(value)
    if isinstance(value, (np.str_,)):
        return str(value)
    return value


def type_tag(value):
    """Python-level type of an arm label as the caller sees it (int / float / str / numpy...)."""
    return type(value).__name__


def call(mab, name, q=None):
    """One API call; exceptions become values.  Never raises."""
    COUNTERS["observations"] += 1
    try:
        r = getattr(mab, name)() if q is None else getattr(mab, name)(_fresh(q))
        return norm(r)
    except Exception as e:                                    # noqa: BLE001
        return {"__exc__": type(e).__name__}


def observe(mab, queries, calls=("predict", "predict_expectations")):
    """Outputs of each call on each query (None = no contexts), each on its own deep copy,
    so that the bandit itself is not advanced."""
    out = []
    for q in queries:
        for c in calls:
            out.append(call(copy.deepcopy(mab), c, q))
    return out


def is_exc(v):
    return isinstance(v, dict) and "__exc__" in v


def same(a, b, rtol=0.0, atol=0.0):
    """Structural equality of normalised observations; floats within tolerance; nan == nan."""
    if isinstance(a, float) or isinstance(b, float):
        if isinstance(a, (int, float)) and isinstance(b, (int, float)) and not isinstance(a, bool) \
                and not isinstance(b, bool):
            if a == b:
                return True
            return abs(a - b) <= atol + rtol * max(abs(a), abs(b))
        return False
    if type(a) is not type(b):
        return False
    if isinstance(a, dict):
        if a.keys() != b.keys():
            return False
        return all(same(a[k], b[k], rtol, atol) for k in a)
    if isinstance(a, list):
        return len(a) == len(b) and all(same(x, y, rtol, atol) for x, y in zip(a, b))
    return a == b


def expectations_dict(obs):
    """{arm: value} from a normalised predict_expectations result for one row."""
    return {k if not isinstance(k, list) else tuple(k): v for k, v in obs["__dict__"]}


def jsonable(x):
    """Witness/sample sanitiser: numpy scalars -> python, tuples -> lists, dict keys -> str."""
    if isinstance(x, dict):
        return {str(k): jsonable(v) for k, v in x.items()}
    if isinstance(x, (list, tuple)):
        return [jsonable(v) for v in x]
    if isinstance(x, np.ndarray):
        return jsonable(x.tolist())
    if isinstance(x, np.generic):
        return jsonable(x.item())
    if isinstance(x, float):
        if x != x:
            return "nan"
        if math.isinf(x):
            return "inf" if x > 0 else "-inf"
        return x
    if isinstance(x, (int, str, bool)) or x is None:
        return x
    if callable(x):
        return getattr(x, "__name__", repr(x))
    return repr(x)
