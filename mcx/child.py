"""Fresh-interpreter side of C19: restore pickled bandits, run continuations, report observations.
usage: python -m mcx.child <jobs.pkl> <out.pkl>
jobs: list of (pickle bytes, [continuation op lists], query sets)"""
from . import env  # noqa: F401
import copy
import pickle
import sys

from . import ops


def main():
    jobs = pickle.load(open(sys.argv[1], "rb"))
    out = []
    for blob, conts, qs in jobs:
        res = []
        try:
            mab = pickle.loads(blob)
        except Exception as e:                                # noqa: BLE001
            out.append({"__exc__": "restore: " + type(e).__name__})
            continue
        for cont in conts:
            m = copy.deepcopy(mab)
            exc = None
            for op in cont:
                try:
                    ops.apply(m, op)
                except Exception as e:                        # noqa: BLE001
                    exc = type(e).__name__
                    break
            res.append({"__exc__": exc} if exc else ops.observe(m, qs))
        out.append(res)
    pickle.dump(out, open(sys.argv[2], "wb"))


if __name__ == "__main__":
    main()
