"""Fresh-interpreter side of C19: restore pickled bandits, run continuations, report observations.
usage: python -m mcx.child <jobs.pkl> <out.pkl>
jobs: list of (pickle bytes, [continuation op lists], query sets)"""
from . import env  # noqa: F401
import copy
import pickle
import sys

from . import ops


def main():
    jobs = pickle.load(open(sys.argv[1], "rb"))
    out = []
    for blob, conts, qs in jobs:
        res = []
        try:
            mab = pickle.loads(blob)
        except Exception as e:                                # noqa: BLE001
            out.append({"__exc__": "restore: " + type(e).__name__})
            continue
        for cont in conts:
            m = pickle.loads(blob)            # one restore per continuation: no copy of the restored object involved
            exc = None
            for op in cont:
                try:
                    ops.apply(m, op)
                except Exception as e:                        # noqa: BLE001
                    exc = type(e).__name__
                    break
            if exc:
                res.append({"__exc__": exc})
            else:
                o = []
                for q in qs:
                    o.append(ops.call(m, "predict", q))
                    o.append(ops.call(m, "predict_expectations", q))
                o.append(ops.norm(list(m.arms)))
                res.append(o)
        out.append(res)
    pickle.dump(out, open(sys.argv[2], "wb"))


if __name__ == "__main__":
    main()
