"""A stand-in for joblib.Parallel that the explorer drives.

joblib's behaviour is an *environment answer*; the model makes it explicit:

  n_jobs == 1                                   tasks run in order, in-process, on the real objects
  require='sharedmem' or backend='threading'    tasks are real threads sharing the objects; exactly one
                                                runs at a time; the chooser decides at every scheduling
                                                point (opcode granularity) which one continues
  otherwise (None / loky / multiprocessing)     every task gets pickle.loads(pickle.dumps(task)): a
                                                private copy of the bandit; tasks complete in an order
                                                the chooser picks; results are returned in task order

A Chooser replays a prefix of choices and then always answers 0; explore_choices() enumerates
all choice sequences depth-first with a bound on preemptions (switching away from a thread
that could have continued).  Divergence while replaying a prefix is a hard error."""
from . import env  # noqa: F401
import contextlib
import dis
import itertools
import pickle
import sys
import threading

import mabwiser.base_mab as _base
import mabwiser.approximate as _approx
import mabwiser.simulator as _sim

PREEMPT_OPS = frozenset(["LOAD_ATTR", "STORE_ATTR", "DELETE_ATTR", "BINARY_SUBSCR", "STORE_SUBSCR", "DELETE_SUBSCR",
                         "CALL", "CALL_FUNCTION_EX", "CALL_KW", "LOAD_METHOD", "BINARY_OP"])
# BINARY_OP is included because "d[k] += v" on a shared dict reads and writes in separate steps
# and the in-place add itself may be a shared-list extension (LSH tables).


class Divergence(RuntimeError):
    pass


class Chooser:
    def __init__(self, prefix=()):
        self.prefix = list(prefix)
        self.choices = []
        self.points = []       # (arity, kind, running_enabled)

    def choose(self, arity, kind, running_enabled=False):
        k = len(self.choices)
        c = self.prefix[k] if k < len(self.prefix) else 0
        if c >= arity:
            raise Divergence("choice %d of %d at point %d (%s) while replaying prefix %r" % (
                c, arity, k, kind, self.prefix))
        self.choices.append(c)
        self.points.append((arity, kind, running_enabled))
        return c

    def preemptions(self):
        return sum(1 for c, (_a, kind, run_en) in zip(self.choices, self.points)
                   if kind == "sched" and run_en and c != 0)


def explore_choices(run, bound, cap=None):
    """Depth-first enumeration of all choice sequences with at most `bound` preemptions.
    run(chooser) executes one complete behaviour.  Yields (chooser, result).  'order' points
    (completion order of isolated tasks) are free; 'sched' points cost one preemption when
    the running thread was still enabled and another one is chosen."""
    stack = [[]]
    n = 0
    while stack:
        prefix = stack.pop()
        ch = Chooser(prefix)
        result = run(ch)
        if ch.choices[:len(prefix)] != prefix:
            raise Divergence("executed choices %r do not extend prefix %r" % (ch.choices, prefix))
        n += 1
        yield ch, result
        if cap is not None and n >= cap:
            return
        used = 0
        for i, (c, (arity, kind, run_en)) in enumerate(zip(ch.choices, ch.points)):
            if i >= len(prefix):
                cost = used + (1 if (kind == "sched" and run_en) else 0)
                if cost <= bound:
                    for alt in range(arity - 1, 0, -1):
                        stack.append(ch.choices[:i] + [alt])
            if kind == "sched" and run_en and c != 0:
                used += 1


# ------------------------------------------------------------------------------------------------
class _Context:
    def __init__(self):
        self.chooser = None
        self.preempt = False          # opcode-level preemption inside shared-memory regions
        self.shared_ids = None        # None: every mabwiser frame is preemptible; else only these receivers
        self.log = []                 # (n_tasks, semantics) per Parallel call
        self.active = False
        self.nested = 0


CTX = _Context()


def shared_ids(root):
    """ids of all mabwiser objects reachable from root (the shared bandit graph)."""
    ids, stack = set(), [root]
    while stack:
        o = stack.pop()
        if id(o) in ids:
            continue
        if type(o).__module__.startswith("mabwiser"):
            ids.add(id(o))
            stack.extend(vars(o).values())
        elif isinstance(o, (list, tuple)):
            stack.extend(o)
        elif isinstance(o, dict):
            stack.extend(o.values())
    return ids


class _ThreadRun:
    """Runs thunks as threads, exactly one at a time.  The scheduling decision at every point is
    taken (through the chooser) by the thread that reached it; control is handed over only when
    another thread is chosen, so an unpreempted stretch costs no context switch."""

    def __init__(self, thunks, chooser, preempt, ids):
        self.thunks = thunks
        self.chooser = chooser
        self.preempt = preempt
        self.ids = ids
        n = len(thunks)
        self.sems = [threading.Semaphore(0) for _ in range(n)]
        self.main = threading.Semaphore(0)
        self.done = [False] * n
        self.results = [None] * n
        self.exc = [None] * n
        self.fatal = None

    def _point(self, tid):
        others = [i for i in range(len(self.thunks)) if not self.done[i] and i != tid]
        if not others:
            return
        c = self.chooser.choose(1 + len(others), "sched", True)
        if c:
            self.sems[others[c - 1]].release()
            self.sems[tid].acquire()

    def _tracer(self, tid):
        ids = self.ids
        opname = dis.opname
        ops_ = PREEMPT_OPS
        point = self._point

        def local(frame, event, arg):
            if event == "opcode":
                if opname[frame.f_code.co_code[frame.f_lasti]] in ops_:
                    point(tid)
            return local

        def glob(frame, event, arg):
            if "/mabwiser/" in frame.f_code.co_filename:
                if ids is None or id(frame.f_locals.get("self")) in ids:
                    frame.f_trace_opcodes = True
                    return local
            return None
        return glob

    def _body(self, tid):
        self.sems[tid].acquire()
        try:
            if self.preempt:
                sys.settrace(self._tracer(tid))
            try:
                self.results[tid] = self.thunks[tid]()
            except Divergence as e:
                self.fatal = e
            except BaseException as e:                        # noqa: BLE001
                self.exc[tid] = e
            finally:
                sys.settrace(None)
        finally:
            self.done[tid] = True
            rest = [i for i in range(len(self.thunks)) if not self.done[i]]
            if not rest or self.fatal is not None:
                self.main.release()
            else:
                try:
                    c = self.chooser.choose(len(rest), "sched", False) if len(rest) > 1 else 0
                    self.sems[rest[c]].release()
                except Divergence as e:
                    self.fatal = e
                    self.main.release()

    def run(self):
        n = len(self.thunks)
        threads = [threading.Thread(target=self._body, args=(i,), daemon=True) for i in range(n)]
        for t in threads:
            t.start()
        c = self.chooser.choose(n, "sched", False) if n > 1 else 0
        self.sems[c].release()
        self.main.acquire()
        if self.fatal is not None:
            raise self.fatal          # (blocked threads are daemons; the explorer aborts)
        for t in threads:
            t.join()
        for e in self.exc:
            if e is not None:
                raise e
        return self.results


class ModelParallel:
    """Replacement for joblib.Parallel (same call shape)."""

    def __init__(self, n_jobs=None, backend=None, require=None, **kw):
        self.n_jobs = n_jobs
        self.backend = backend
        self.require = require

    def __call__(self, tasks):
        tasks = list(tasks)
        thunks_src = [(f, a, k) for f, a, k in tasks]
        n = len(thunks_src)
        ch = CTX.chooser
        shared = self.require == "sharedmem" or self.backend == "threading"
        if self.n_jobs in (1, None) or n == 0:
            CTX.log.append((n, "inline"))
            return [f(*a, **k) for f, a, k in thunks_src]
        if shared:
            CTX.log.append((n, "shared"))
            thunks = [(lambda f=f, a=a, k=k: f(*a, **k)) for f, a, k in thunks_src]
            if CTX.nested:
                # a Parallel inside a scheduled task: run inline (the library never nests shared regions)
                return [t() for t in thunks]
            CTX.nested += 1
            try:
                return _ThreadRun(thunks, ch or Chooser(), CTX.preempt, CTX.shared_ids).run()
            finally:
                CTX.nested -= 1
        # isolated workers: private pickled copies, any completion order, results in task order
        CTX.log.append((n, "isolated"))
        perms = list(itertools.permutations(range(n))) if n <= 4 else [tuple(range(n)), tuple(reversed(range(n)))]
        c = (ch or Chooser()).choose(len(perms), "order") if len(perms) > 1 else 0
        results = [None] * n
        for i in perms[c]:
            f, a, k = pickle.loads(pickle.dumps(thunks_src[i], protocol=pickle.HIGHEST_PROTOCOL))
            results[i] = f(*a, **k)
        return results


@contextlib.contextmanager
def model(chooser=None, preempt=False, ids=None):
    """Within this block every joblib.Parallel call of mabwiser goes through the model."""
    saved = (_base.Parallel, _approx.Parallel, _sim.Parallel)
    old = (CTX.chooser, CTX.preempt, CTX.shared_ids, CTX.active)
    CTX.chooser, CTX.preempt, CTX.shared_ids, CTX.active = chooser or Chooser(), preempt, ids, True
    CTX.log = []
    _base.Parallel = _approx.Parallel = _sim.Parallel = ModelParallel
    try:
        yield CTX
    finally:
        _base.Parallel, _approx.Parallel, _sim.Parallel = saved
        CTX.chooser, CTX.preempt, CTX.shared_ids, CTX.active = old
