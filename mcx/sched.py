"""A stand-in for joblib.Parallel that the explorer drives.

joblib's behaviour is an *environment answer*; the model makes it explicit:

  n_jobs == 1                                   tasks run in order, in-process, on the real objects
  require='sharedmem' or backend='threading'    tasks are real threads sharing the objects; exactly one
                                                runs at a time; the chooser decides at every scheduling
                                                point (opcode granularity) which one continues
  otherwise (None / loky / multiprocessing)     every task gets pickle.loads(pickle.dumps(task)): a
                                                private copy of the bandit; tasks complete in an order
                                                the chooser picks; results are returned in task order

A Chooser replays a prefix of choices and then always answers 0; explore_choices() enumerates
all choice sequences depth-first with a bound on preemptions (switching away from a thread
that could have continued).  Divergence while replaying a prefix is a hard error."""
from . import env  # noqa: F401
import contextlib
import dis
import itertools
import pickle
import sys
import threading

import mabwiser.base_mab as _base
import mabwiser.approximate as _approx
import mabwiser.simulator as _sim

PREEMPT_OPS = frozenset(["LOAD_ATTR", "STORE_ATTR", "DELETE_ATTR", "BINARY_SUBSCR", "STORE_SUBSCR", "DELETE_SUBSCR",
                         "CALL", "CALL_FUNCTION_EX", "CALL_KW", "LOAD_METHOD", "BINARY_OP"])
# BINARY_OP is included because "d[k] += v" on a shared dict reads and writes in separate steps
# and the in-place add itself may be a shared-list extension (LSH tables).


class Divergence(RuntimeError):
    pass


class Chooser:
    def __init__(self, prefix=()):
        self.prefix = list(prefix)
        self.choices = []
        self.points = []       # (arity, kind, running_enabled)

    def choose(self, arity, kind, running_enabled=False):
        k = len(self.choices)
        c = self.prefix[k] if k < len(self.prefix) else 0
        if c >= arity:
            raise Divergence("choice %d of %d at point %d (%s) while replaying prefix %r" % (
                c, arity, k, kind, self.prefix))
        self.choices.append(c)
        self.points.append((arity, kind, running_enabled))
        return c

    def preemptions(self):
        return sum(1 for c, (_a, kind, run_en) in zip(self.choices, self.points)
                   if kind == "sched" and run_en and c != 0)


def explore_choices(run, bound, cap=None, root_filter=None):
    """Depth-first enumeration of all choice sequences with at most `bound` preemptions.
    run(chooser) executes one complete behaviour.  Yields (chooser, result).  'order' points
    (completion order of isolated tasks) are free; 'sched' points cost one preemption when
    the running thread was still enabled and another one is chosen.  root_filter(i) -> bool
    shards one exploration over several workers: in an execution that has used no preemption
    yet, a worker takes the preempting alternative at point i only if root_filter(i) holds (the
    filters of the shards partition the indices).  Every execution with at least one preemption
    then belongs to exactly one shard (by the index of its first preemption); executions without
    any preemption (free choices only) are run by every shard."""
    stack = [[]]
    n = 0
    while stack:
        prefix = stack.pop()
        ch = Chooser(prefix)
        result = run(ch)
        if ch.choices[:len(prefix)] != prefix:
            raise Divergence("executed choices %r do not extend prefix %r" % (ch.choices, prefix))
        n += 1
        yield ch, result
        if cap is not None and n >= cap:
            return
        used = 0
        for i, (c, (arity, kind, run_en)) in enumerate(zip(ch.choices, ch.points)):
            if i >= len(prefix):
                costed = kind == "sched" and run_en
                cost = used + (1 if costed else 0)
                if cost <= bound and (root_filter is None or used > 0 or not costed or root_filter(i)):
                    for alt in range(arity - 1, 0, -1):
                        stack.append(ch.choices[:i] + [alt])
            if kind == "sched" and run_en and c != 0:
                used += 1


# ------------------------------------------------------------------------------------------------
class _Context:
    def __init__(self):
        self.chooser = None
        self.preempt = False          # opcode-level preemption inside shared-memory regions
        self.shared_ids = None        # None: every mabwiser frame is preemptible; else only these receivers
        self.log = []                 # (n_tasks, semantics) per Parallel call
        self.active = False
        self.nested = 0


CTX = _Context()


def shared_ids(root):
    """{id: object} of all mabwiser objects reachable from root (the shared bandit graph).  The objects
    are kept alive by the mapping, so an id cannot be re-used by a task-private object created later."""
    ids, stack = {}, [root]
    while stack:
        o = stack.pop()
        if id(o) in ids:
            continue
        if type(o).__module__.startswith("mabwiser"):
            ids[id(o)] = o
            stack.extend(vars(o).values())
        elif isinstance(o, (list, tuple)):
            stack.extend(o)
        elif isinstance(o, dict):
            stack.extend(o.values())
    return ids


# ---- opcode-level preemption points through sys.monitoring (PEP 669) ---------------------------------
# Every code object of the mabwiser package is instrumented for INSTRUCTION events once, up front
# (sys.settrace + f_trace_opcodes only starts delivering opcode events for a code object on its second
# traced execution on CPython 3.12.1, which makes first executions irreproducible).  The callback is a
# no-op outside scheduled task threads.
_MON = sys.monitoring
_TOOL = _MON.DEBUGGER_ID
_TLS = threading.local()
_OFFSETS = {}            # code object -> frozenset of instruction offsets that are preemption points
_instrumented = False


def _code_objects(code, seen):
    if code in seen:
        return
    seen.add(code)
    for c in code.co_consts:
        if isinstance(c, type(code)):
            _code_objects(c, seen)


def _all_mabwiser_code():
    import types
    seen = set()
    for name, mod in list(sys.modules.items()):
        if not (name == "mabwiser" or name.startswith("mabwiser.")) or mod is None:
            continue
        for obj in list(vars(mod).values()):
            if isinstance(obj, types.FunctionType) and "/mabwiser/" in obj.__code__.co_filename:
                _code_objects(obj.__code__, seen)
            elif isinstance(obj, type) and getattr(obj, "__module__", "").startswith("mabwiser"):
                stack = [obj]
                while stack:
                    cls = stack.pop()
                    for v in list(vars(cls).values()):
                        f = v
                        if isinstance(v, (staticmethod, classmethod)):
                            f = v.__func__
                        elif isinstance(v, property):
                            for g in (v.fget, v.fset, v.fdel):
                                if isinstance(g, types.FunctionType):
                                    _code_objects(g.__code__, seen)
                            continue
                        if isinstance(f, types.FunctionType):
                            _code_objects(f.__code__, seen)
                        elif isinstance(f, type) and getattr(f, "__module__", "").startswith("mabwiser"):
                            stack.append(f)
    return seen


def _on_instruction(code, offset):
    run = getattr(_TLS, "run", None)
    if run is None:
        return None
    offs = _OFFSETS.get(code)
    if offs is None or offset not in offs:
        return None
    ids = run.ids
    if ids is not None:
        if id(sys._getframe(1).f_locals.get("self")) not in ids:
            return None
    run._point(_TLS.tid)
    return None


def _instrument():
    global _instrumented
    if _instrumented:
        return
    try:
        _MON.use_tool_id(_TOOL, "mcx-sched")
    except ValueError:
        pass
    _MON.register_callback(_TOOL, _MON.events.INSTRUCTION, _on_instruction)
    for code in _all_mabwiser_code():
        offs = frozenset(ins.offset for ins in dis.get_instructions(code) if ins.opname in PREEMPT_OPS)
        _OFFSETS[code] = offs
        _MON.set_local_events(_TOOL, code, _MON.events.INSTRUCTION)
    _instrumented = True


class _ThreadRun:
    """Runs thunks as threads, exactly one at a time.  The scheduling decision at every point is
    taken (through the chooser) by the thread that reached it; control is handed over only when
    another thread is chosen, so an unpreempted stretch costs no context switch."""

    def __init__(self, thunks, chooser, preempt, ids):
        self.thunks = thunks
        self.chooser = chooser
        self.preempt = preempt
        self.ids = ids
        n = len(thunks)
        self.sems = [threading.Semaphore(0) for _ in range(n)]
        self.main = threading.Semaphore(0)
        self.done = [False] * n
        self.results = [None] * n
        self.exc = [None] * n
        self.fatal = None
        if preempt:
            _instrument()

    def _point(self, tid):
        if self.fatal is not None:
            return
        others = [i for i in range(len(self.thunks)) if not self.done[i] and i != tid]
        if not others:
            return
        _TLS.run = None                   # the scheduler's own code is not a preemption point
        try:
            c = self.chooser.choose(1 + len(others), "sched", True)
        except Divergence as e:
            self.fatal = e
            _TLS.run = self
            return
        if c:
            self.sems[others[c - 1]].release()
            self.sems[tid].acquire()
        _TLS.run = self

    def _body(self, tid):
        self.sems[tid].acquire()
        try:
            if self.preempt:
                _TLS.run, _TLS.tid = self, tid
            try:
                self.results[tid] = self.thunks[tid]()
            except BaseException as e:                        # noqa: BLE001
                self.exc[tid] = e
            finally:
                _TLS.run = None
        finally:
            self.done[tid] = True
            rest = [i for i in range(len(self.thunks)) if not self.done[i]]
            if not rest:
                self.main.release()
            else:
                c = 0
                if self.fatal is None and len(rest) > 1:
                    try:
                        c = self.chooser.choose(len(rest), "sched", False)
                    except Divergence as e:
                        self.fatal = e
                self.sems[rest[c]].release()

    def run(self):
        n = len(self.thunks)
        threads = [threading.Thread(target=self._body, args=(i,), daemon=True) for i in range(n)]
        for t in threads:
            t.start()
        c = self.chooser.choose(n, "sched", False) if n > 1 else 0
        self.sems[c].release()
        self.main.acquire()
        for t in threads:
            t.join()
        if self.fatal is not None:
            raise self.fatal
        for e in self.exc:
            if e is not None:
                raise e
        return self.results


class ModelParallel:
    """Replacement for joblib.Parallel (same call shape)."""

    def __init__(self, n_jobs=None, backend=None, require=None, **kw):
        self.n_jobs = n_jobs
        self.backend = backend
        self.require = require

    def __call__(self, tasks):
        tasks = list(tasks)
        thunks_src = [(f, a, k) for f, a, k in tasks]
        n = len(thunks_src)
        ch = CTX.chooser
        shared = self.require == "sharedmem" or self.backend == "threading"
        if self.n_jobs in (1, None) or n == 0:
            CTX.log.append((n, "inline"))
            return [f(*a, **k) for f, a, k in thunks_src]
        if shared:
            CTX.log.append((n, "shared"))
            thunks = [(lambda f=f, a=a, k=k: f(*a, **k)) for f, a, k in thunks_src]
            if CTX.nested:
                # a Parallel inside a scheduled task: run inline (the library never nests shared regions)
                return [t() for t in thunks]
            CTX.nested += 1
            try:
                return _ThreadRun(thunks, ch or Chooser(), CTX.preempt, CTX.shared_ids).run()
            finally:
                CTX.nested -= 1
        # isolated workers: private pickled copies, any completion order, results in task order
        CTX.log.append((n, "isolated"))
        perms = list(itertools.permutations(range(n))) if n <= 4 else [tuple(range(n)), tuple(reversed(range(n)))]
        c = (ch or Chooser()).choose(len(perms), "order") if len(perms) > 1 else 0
        results = [None] * n
        for i in perms[c]:
            f, a, k = pickle.loads(pickle.dumps(thunks_src[i], protocol=pickle.HIGHEST_PROTOCOL))
            results[i] = f(*a, **k)
        return results


@contextlib.contextmanager
def model(chooser=None, preempt=False, ids=None):
    """Within this block every joblib.Parallel call of mabwiser goes through the model."""
    saved = (_base.Parallel, _approx.Parallel, _sim.Parallel)
    old = (CTX.chooser, CTX.preempt, CTX.shared_ids, CTX.active)
    CTX.chooser, CTX.preempt, CTX.shared_ids, CTX.active = chooser or Chooser(), preempt, ids, True
    CTX.log = []
    _base.Parallel = _approx.Parallel = _sim.Parallel = ModelParallel
    try:
        yield CTX
    finally:
        _base.Parallel, _approx.Parallel, _sim.Parallel = saved
        CTX.chooser, CTX.preempt, CTX.shared_ids, CTX.active = old
