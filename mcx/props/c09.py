"""C09 - predict returns the first arm attaining the maximum of predict_expectations.

Every fitted state of the shared BFS (mcx.statespace), extended with tie-forcing and
near-tie training sets (arm means 1 and 1+2^-30 in both arm orders); in each state and for
each query size, predict runs on one deep copy and predict_expectations on another (same
model, same stream position) and are compared row by row."""
from .. import env  # noqa: F401
import copy
import math

from .. import alphabet as A, ops, report, statespace as S

ID = "C09"
EPS = 2.0 ** -30


def meta(tier, seed):
    return {
        "rule": "a case = (combination, label type, state, query size); non-trivial iff some row's maximum is attained "
                "by two or more arms exactly, or the two largest expectations differ by less than 1e-6 relative "
                "(tie / near-tie: only there can a wrong tie-break or a rounded comparison show); distinct by state "
                "digest and query size",
        "oracle": "for each row: expectations contain NaN (empty neighbourhood) => prediction is a current arm; else "
                  "prediction == first arm in mab.arms order whose expectation equals the row maximum",
        "bounds": {"depth": 3 if tier == "quick" else 4, "label_types": ["int", "str"] + ([] if tier == "quick" else ["float"]),
                   "extra_initial_training_sets": ["near-tie A (1, 1+2^-30)", "near-tie B (1+2^-30, 1)",
                                                   "near-tie both orders by context"],
                   "excluded": "TreeBandit + EpsilonGreedy(epsilon>0) (exploration only inside predict, as the property states)"},
        "assumptions": [],
    }


def shards(tier, seed):
    out = []
    depth = 3 if tier == "quick" else 4
    for ln, nn in A.combos(lints1=True):
        if nn == "tree" and ln == "eg5":
            continue
        for labels in (("int", "str") if tier == "quick" else ("int", "str", "float")):
            out.append({"ln": ln, "nn": nn, "labels": labels, "depth": depth, "seed": 5 + seed})
        if nn != "none":
            # the two calls must also agree when both are split over workers (joblib model, isolated workers)
            out.append({"ln": ln, "nn": nn, "labels": "int", "depth": 2, "seed": 5 + seed, "n_jobs": 2})
    return A.heavy_first(out)


def _near_ops(arms, cf, ln):
    if ln in ("ts", "tsb"):
        return []           # Thompson needs binary rewards; its expectations are draws anyway
    a0, a1 = arms[0], arms[1]
    x = None if cf else [[1, 1], [1, 1]]
    x4 = None if cf else [[1, 1], [1, 1], [0, 0], [0, 0]]
    return [["fit", [a0, a1], [1, 1 + EPS], x],
            ["fit", [a0, a1], [1 + EPS, 1], x],
            ["fit", [a0, a1, a0, a1], [1, 1 + EPS, 1 + EPS, 1], x4]]


def _row_check(p, e, arms):
    """-> (message | None, is_tie_or_near_tie)"""
    vals = [e[a] for a in arms]
    if any(isinstance(v, float) and math.isnan(v) for v in vals):
        return (None if p in arms else "row with NaN expectations predicted %r, not a current arm" % (p,)), False
    mx = max(vals)
    want = arms[vals.index(mx)]
    srt = sorted(vals, reverse=True)
    near = len(srt) > 1 and (srt[0] - srt[1]) <= 1e-6 * max(1.0, abs(srt[0]))
    if p != want:
        return "predict returned %r but the first arm attaining the maximum of %r is %r" % (p, e, want), near
    return None, near


def check_state(mab, cf):
    """-> (list of (query label, message), set of query labels that had a tie/near tie)."""
    out, ties = [], set()
    arms = list(mab.arms)
    for qlabel, q in S.query_sets(cf):
        args = () if q is None else (q,)
        try:
            p = copy.deepcopy(mab).predict(*copy.deepcopy(args))
            e = copy.deepcopy(mab).predict_expectations(*copy.deepcopy(args))
        except Exception as ex:                               # noqa: BLE001
            out.append((qlabel, "query raised %s" % type(ex).__name__))
            continue
        ops.COUNTERS["observations"] += 2
        rows = [(p, e)] if isinstance(e, dict) else list(zip(p, e)) if isinstance(p, list) and len(p) == len(e) else None
        if rows is None:
            out.append((qlabel, "shapes of predict %r and predict_expectations %r do not match" % (p, e)))
            continue
        for i, (pi, ei) in enumerate(rows):
            if list(ei) != arms:
                out.append((qlabel, "row %d: keys %r != arms %r" % (i, list(ei), arms)))
                break
            ei = {k: float(v) for k, v in ei.items()}
            msg, near = _row_check(pi, ei, arms)
            if near:
                ties.add(qlabel)
            if msg:
                out.append((qlabel, "row %d: %s" % (i, msg)))
                break
    return out, ties


def probe_after_queries(mab, cf, labels):
    """The bandit itself answers queries, then one arm is removed and another added (same arm count), then
    predict and predict_expectations - from copies of that state - must still agree."""
    arms = list(mab.arms)
    new = S.LABELS[labels][1]
    if new in arms or len(arms) < 2:
        return []
    q = None if cf else [[0, 0], [1, 1], [2, 2]]
    out = []
    for seq in ([["remove_arm", arms[0]], ["add_arm", new]], [["add_arm", new], ["remove_arm", arms[0]]]):
        m = copy.deepcopy(mab)
        try:
            m.predict(*(() if q is None else (copy.deepcopy(q),)))
            for op in seq:
                ops.apply(m, op)
            ops.apply(m, ["partial_fit", [new], [1], None if cf else [[1, 1]]])
        except Exception:                                     # noqa: BLE001
            continue
        bad, _ = check_state(m, cf)
        out += [("probe %s" % "+".join(o[0] for o in seq), "%s: %s" % (ql, msg)) for ql, msg in bad]
    return out


def run_shard(shard):
    ln, nn, labels = shard["ln"], shard["nn"], shard["labels"]
    arms0 = S.initial_arms(labels)
    cfg = A.config(ln, nn, arms=arms0, seed=shard["seed"], n_jobs=shard.get("n_jobs", 1))
    cf = ops.is_context_free(cfg)
    acc = report.Acc(ID, replay, shard)
    if shard.get("n_jobs", 1) > 1:
        from .. import sched
        with sched.model():
            return _explore(shard, cfg, cf, ln, nn, labels, arms0, acc)
    return _explore(shard, cfg, cf, ln, nn, labels, arms0, acc)


def _explore(shard, cfg, cf, ln, nn, labels, arms0, acc):
    def visit(mab, hist, removed):
        if not S.fitted(mab):
            return
        if S.knn_short(mab):
            acc.skip("KNearest state with fewer stored rows than k")
            return
        acc.traces += 1
        bad, ties = check_state(mab, cf)
        if not bad:
            bad = probe_after_queries(mab, cf, labels)
        for ql, _q in S.query_sets(cf):
            acc.case(("%s/%s/%s" % (ln, nn, labels), tuple(map(str, hist)), ql) if ql in ties else None)
        acc.outcome([len(bad), sorted(ties)])
        if ties and len(hist) <= 2:
            acc.sample({"cfg": cfg, "history": hist, "tie_or_near_tie_at": sorted(ties)})
        for ql, msg in bad:
            acc.violation("%s/%s %s %s" % (ln, nn, labels, ql), {"cfg": cfg, "history": hist}, "%s: %s" % (ql, msg))

    S.explore(cfg, labels, shard["depth"], acc, visit, first_ops=_near_ops(arms0, cf, ln), query=True)
    return acc.result()


def replay(w):
    cfg = w["cfg"]
    if cfg.get("n_jobs", 1) > 1:
        from .. import sched
        with sched.model():
            return _replay(w)
    return _replay(w)


def _replay(w):
    cfg = w["cfg"]
    mab = ops.build(cfg)
    for op in w["history"]:
        ops.apply(mab, op)
    cf = ops.is_context_free(cfg)
    bad, _ = check_state(mab, cf)
    if not bad:
        labels = "int" if isinstance(cfg["arms"][0], int) else "str" if isinstance(cfg["arms"][0], str) else "float"
        bad = probe_after_queries(mab, cf, labels)
    return ["%s: %s" % x for x in bad]
