"""C19 - copies and pickles of a bandit behave identically to the original.

In every state of the shared BFS (unfitted states included): copies by copy.deepcopy and
pickle protocols 2..5 in-process, and protocol 4 restored in a fresh interpreter; every
continuation up to the depth bound is applied to original and copy and the outputs on the
query set compared; then the copy is trained and queried and the original must be unaffected."""
from .. import env  # noqa: F401
import copy
import os
import pickle
import subprocess
import sys
import tempfile

from .. import alphabet as A, ops, report, statespace as S

ID = "C19"
METHODS = ["deepcopy", "pickle2", "pickle3", "pickle4", "pickle5"]
QUICK_METHODS = ["deepcopy", "pickle5"]      # protocol 4 is covered by the fresh-interpreter restore


X4 = [[0, 0], [1, 1], [0, 1], [2, 2]]
HB_OPS = [["fit", [1, 2, 1, 2], [1, 0, 0, 1], X4], ["add_arm", 3, "bin_ge2"], ["add_arm", 3],
          ["partial_fit", [1, 2], [0, 1], X4[:2]], ["partial_fit", [2, 1], [5, 0], X4[2:]], ["remove_arm", 1]]
CB_OPS = [["partial_fit", [2, 2], [5, 1], X4[1:3]], ["fit", [2, 2, 2], [5, 0, 2], X4[:3]], ["add_arm", 4, "bin_ge5"],
          ["partial_fit", [2], [1], X4[:1]]]


def meta(tier, seed):
    return {
        "rule": "a case = (combination, labels, state, copy method, continuation); non-trivial iff the state was reached "
                "by at least two calls (training and/or arm changes happened before the copy); distinct by (state "
                "digest, method, continuation)",
        "oracle": "copy and original give identical predict / predict_expectations (or the same exception class) after "
                  "every continuation; training and querying the copy leaves the original's outputs unchanged; "
                  "protocol-4 pickles restored in a fresh interpreter give the same outputs as the original in-process",
        "bounds": {"bfs_depth": 2 if tier == "quick" else "3 (int labels), 2 (str labels)", "continuation_depth": 1,
                   "methods": (QUICK_METHODS if tier == "quick" else METHODS) + ["pickle4 -> fresh interpreter"],
                   "labels": "int for every combination; str for %s" % (
                       "every combination" if tier != "quick" else ["%s/%s" % c for c in QUICK_STR]),
                   "restoring_interpreters": "PYTHONHASHSEED=1 for numeric labels; for str labels one interpreter per distinct "
                                             "iteration order of the label sets found among hash seeds 1..48: %r (the parent "
                                             "runs with PYTHONHASHSEED=0)" % (order_seeds("str"),),
                   "n_jobs": "1; additionally 2 (joblib model) for ts/tree, eg5/tree, ts/rad, eg5/clu, lts1/knn at depth 2",
                   "binarizer_histories": "Thompson Sampling with / without a binarizer under %s: every history of <= 3 "
                                          "calls over %d operations (add_arm with a binarizer, non-binary rewards), "
                                          "every continuation of <= 2 calls over %d operations" % (
                                              ["none", "rad", "tree"] if tier == "quick" else list(A.NPS),
                                              len(HB_OPS), len(CB_OPS))},
        "assumptions": ["binarizers are module-level functions of the harness (picklable), as the property states"],
    }


_ORDER_SEEDS = {}


def order_seeds(labels):
    """Hash seeds for the restoring interpreters.  The only way the hash seed reaches a bandit is the iteration order of
    sets / dicts keyed by str labels: probe seeds 1..48 and keep the first seed for every distinct pair (order of the set
    of the initial labels, order of the set with the added label) - all 2 x 6 orders that occur are then realised by some
    restoring interpreter.  Numeric labels hash to themselves: one seed."""
    if labels not in ("str", "mixed"):
        return ["1"]
    if labels not in _ORDER_SEEDS:
        init, extra = S.LABELS[labels]
        strs = [a for a in list(init) + [extra] if isinstance(a, str)]
        code = "print([list(set(%r)), list(set(%r))])" % (strs[:-1] or strs, strs)
        seen, keep = set(), []
        for hs in range(1, 49):
            r = subprocess.run([sys.executable, "-c", code], env=dict(os.environ, PYTHONHASHSEED=str(hs)),
                               capture_output=True, text=True)
            sig = r.stdout.strip()
            if r.returncode == 0 and sig not in seen:
                seen.add(sig)
                keep.append(str(hs))
        _ORDER_SEEDS[labels] = keep or ["1"]
    return _ORDER_SEEDS[labels]


# quick tier: str labels (whose set order depends on the interpreter's hash seed) for a cross-section of the combinations
QUICK_STR = [("eg0", "none"), ("ucb", "none"), ("ts", "none"), ("lg", "none"), ("lts", "none"), ("eg0", "rad"), ("ucb", "knn"),
             ("eg0", "clu"), ("ucb", "lsh"), ("eg0", "tree")]


def shards(tier, seed):
    out = []
    for ln, nn in A.combos(lints1=True):
        for labels in (("int",) if tier == "quick" else ("int", "str")):
            out.append({"ln": ln, "nn": nn, "labels": labels, "depth": 2 if (tier == "quick" or labels == "str") else 3,
                        "cdepth": 1, "all_methods": tier != "quick", "seed": 13 + seed, "hashseeds": order_seeds(labels)})
    if tier == "quick":
        for ln, nn in QUICK_STR:
            out.append({"ln": ln, "nn": nn, "labels": "str", "depth": 2, "cdepth": 1, "all_methods": False, "seed": 13 + seed,
                        "hashseeds": order_seeds("str")})
    # bandits configured with two jobs: a copy must keep every hyper-parameter, the number of jobs included
    for ln, nn in (("ts", "tree"), ("eg5", "tree"), ("ts", "rad"), ("eg5", "clu"), ("lts1", "knn")):
        out.append({"ln": ln, "nn": nn, "labels": "int", "depth": 2, "cdepth": 1, "all_methods": tier != "quick",
                    "seed": 13 + seed, "n_jobs": 2})
    # Thompson Sampling whose binarizer is installed or replaced by add_arm: the one hyper-parameter that changes
    # after construction.  Histories over HB_OPS up to depth 3, continuations over CB_OPS up to depth 2.
    for ln in ("ts", "tsb"):
        for nn in (["none", "rad", "tree"] if tier == "quick" else list(A.NPS)):
            for first in range(len(HB_OPS)):
                out.append({"kind": "binarizer", "ln": ln, "nn": nn, "labels": "int", "all_methods": tier != "quick",
                            "first": first, "seed": 13 + seed})
    return A.heavy_first(out)


def make_copy(mab, method):
    if method == "deepcopy":
        return copy.deepcopy(mab)
    return pickle.loads(pickle.dumps(mab, protocol=int(method[-1])))


def _queries(cf):
    return [None] if cf else [[[0, 0], [1, 1], [2, 2]], [[1, 1]]]


def _run_cont(m, cont):
    for op in cont:
        try:
            ops.apply(m, op)
        except Exception as e:                                # noqa: BLE001
            return {"__exc__": type(e).__name__}
    return None


def observe_inplace(m, qs):
    """predict and predict_expectations on the object itself, in a fixed order (no copies involved)."""
    out = []
    for q in qs:
        out.append(ops.call(m, "predict", q))
        out.append(ops.call(m, "predict_expectations", q))
    out.append(ops.norm(list(m.arms)))
    return out


def original(cfg, hist):
    """The original object: built by replaying its history through the public API, never copied."""
    return ops.run_history(cfg, hist)


def judge(cfg, hist, cf, method, conts, acc=None, key=None, expected=None):
    """expected: per continuation, the outputs of the never-copied original (computed once per state)."""
    msgs = []
    qs = _queries(cf)
    source = original(cfg, hist)
    for ci, cont in enumerate(conts):
        try:
            cp = make_copy(source, method)
        except Exception as e:                                # noqa: BLE001
            return [([], "%s of the bandit raised %s: %s" % (method, type(e).__name__, str(e)[:100]))]
        eb = _run_cont(cp, cont)
        ob = eb or observe_inplace(cp, qs)
        if expected is not None:
            oa = expected[ci]
        else:
            o = original(cfg, hist)
            ea = _run_cont(o, cont)
            oa = ea or observe_inplace(o, qs)
        if acc is not None:
            acc.traces += 1
            acc.case((key, method, str(cont)) if key is not None else None)
            acc.outcome(oa)
        if not ops.same(oa, ob):
            msgs.append((cont, "%s copy differs after continuation %r: original %r, copy %r" % (
                method, [o[0] for o in cont], oa, ob)))
    # isolation: the copies above were trained and queried; the object they were taken from must not have moved
    fresh = original(cfg, hist)
    a, b = observe_inplace(source, qs), observe_inplace(fresh, qs)
    if not ops.same(a, b):
        msgs.append(([], "using %s copies changed the object they were taken from: %r, an untouched original gives %r" % (
            method, a, b)))
    return msgs


def run_binarizer_shard(shard):
    import itertools
    ln, nn = shard["ln"], shard["nn"]
    cfg = A.config(ln, nn, arms=[1, 2], seed=shard["seed"])
    if ln == "tsb":
        cfg["lp"] = ["ThompsonSampling", {"binarizer": "bin_ge1"}]
    cf = ops.is_context_free(cfg)
    acc = report.Acc(ID, replay, shard)
    qs = _queries(cf)

    def fix(op):
        return [op[0], op[1], op[2], None] if cf and op[0] in ("fit", "partial_fit") else op
    conts = [[fix(o) for o in c] for k in range(0, 3) for c in itertools.product(CB_OPS, repeat=k)]
    for depth in range(1, 4):
        for hist in itertools.product(HB_OPS, repeat=depth):
            if hist[0] is not HB_OPS[shard["first"]]:
                continue
            hist = [fix(o) for o in hist]
            try:
                m = original(cfg, hist)
            except Exception:                                 # noqa: BLE001
                acc.skip("history rejected by the library (C17 judges rejected calls)")
                continue
            if S.knn_short(m):
                continue
            acc.state(("binarizer", ln, nn, str(hist)))
            key = "%s/%s/bin/%s" % (ln, nn, "|".join(map(str, hist)))
            expected = []
            for cont in conts:
                o = original(cfg, hist)
                e = _run_cont(o, cont)
                expected.append(e or observe_inplace(o, qs))
            for method in (METHODS if shard.get("all_methods") else QUICK_METHODS):
                for cont, msg in judge(cfg, hist, cf, method, conts, acc, key, expected):
                    acc.violation("%s/%s %s binarizer cont=%s" % (ln, nn, method, "+".join(o[0] for o in cont)),
                                  {"cfg": cfg, "history": hist, "method": method, "cont": cont}, msg)
            if depth == 2 and len(acc.samples) < 2:
                acc.sample({"cfg": cfg, "history": hist, "continuations": len(conts)})
    return acc.result()


def run_shard(shard):
    if shard.get("kind") == "binarizer":
        return run_binarizer_shard(shard)
    if shard.get("n_jobs", 1) > 1:
        from .. import sched
        with sched.model():                      # two jobs per prediction (joblib model, default schedule)
            return _run_shard(shard)
    return _run_shard(shard)


def _run_shard(shard):
    ln, nn, labels = shard["ln"], shard["nn"], shard["labels"]
    cfg = A.config(ln, nn, arms=S.initial_arms(labels), seed=shard["seed"], n_jobs=shard.get("n_jobs", 1))
    cf = ops.is_context_free(cfg)
    acc = report.Acc(ID, replay, shard)
    jobs, job_meta = [], []

    def visit(mab, hist, removed):
        if S.knn_short(mab):
            return
        conts = list(S.continuations(mab, cf, labels, removed, shard["cdepth"]))
        key = ("%s/%s/%s/%s" % (ln, nn, labels, "|".join(map(str, hist)))) if len(hist) >= 2 else None
        qs = _queries(cf)
        expected = []
        for cont in conts:
            o = original(cfg, hist)
            e = _run_cont(o, cont)
            expected.append(e or observe_inplace(o, qs))
        for method in (METHODS if shard.get("all_methods") else QUICK_METHODS):
            for cont, msg in judge(cfg, hist, cf, method, conts, acc, key, expected):
                acc.violation("%s/%s %s cont=%s" % (ln, nn, method, "+".join(o[0] for o in cont)),
                              {"cfg": cfg, "history": hist, "method": method, "cont": cont}, msg)
        if len(hist) == 2:
            acc.sample({"cfg": cfg, "history": hist, "methods": METHODS, "continuations": len(conts)})
        if shard.get("n_jobs", 1) > 1:
            return                                            # the fresh-interpreter restore is exercised with one job
        # fresh-interpreter job: protocol-4 pickle of the never-copied original
        try:
            blob = pickle.dumps(original(cfg, hist), protocol=4)
        except Exception:                                     # noqa: BLE001
            return                                            # already reported above
        jobs.append((blob, conts, qs))
        job_meta.append((hist, conts, expected))

    S.explore(cfg, labels, shard["depth"], acc, visit, query=True)      # states reached through predictions too

    for hashseed in (shard.get("hashseeds") or ["1"]) if jobs else []:
        tmp = tempfile.mkdtemp(prefix="c19_")
        try:
            jp, op_ = os.path.join(tmp, "jobs.pkl"), os.path.join(tmp, "out.pkl")
            pickle.dump(jobs, open(jp, "wb"))
            envv = dict(os.environ, PYTHONHASHSEED=hashseed)     # hash seeds other than the parent's on purpose
            r = subprocess.run([sys.executable, "-m", "mcx.child", jp, op_], cwd=env.VERIF, env=envv,
                               capture_output=True, text=True)
            if r.returncode != 0:
                raise RuntimeError("child interpreter failed: " + r.stderr[-500:])
            got = pickle.load(open(op_, "rb"))
        finally:
            for f in os.listdir(tmp):
                os.unlink(os.path.join(tmp, f))
            os.rmdir(tmp)
        for (hist, conts, expected), res in zip(job_meta, got):
            if isinstance(res, dict):
                acc.violation("%s/%s fresh-process restore" % (ln, nn), {"cfg": cfg, "history": hist, "method": "child",
                                                                         "hashseed": hashseed, "cont": []},
                              "restore failed: %r" % res)
                continue
            for cont, want, have in zip(conts, expected, res):
                acc.traces += 1
                acc.case(("%s/%s/%s/%s" % (ln, nn, labels, "|".join(map(str, hist))), "child", hashseed, str(cont))
                         if len(hist) >= 2 else None)
                if not ops.same(want, have):
                    acc.violation("%s/%s fresh-process cont=%s" % (ln, nn, "+".join(o[0] for o in cont)),
                                  {"cfg": cfg, "history": hist, "method": "child", "hashseed": hashseed, "cont": cont},
                                  "pickle restored in a fresh interpreter (PYTHONHASHSEED=" + hashseed + ") differs after %r: original %r, restored %r" % (
                                      [o[0] for o in cont], want, have))
    return acc.result()


def replay(w):
    if w["cfg"].get("n_jobs", 1) > 1 and not w.get("_in_model"):
        from .. import sched
        with sched.model():
            return replay(dict(w, _in_model=True))
    cfg = w["cfg"]
    cf = ops.is_context_free(cfg)
    hist = w["history"]
    qs = _queries(cf)
    if w["method"] == "child":
        tmp = tempfile.mkdtemp(prefix="c19_")
        try:
            jp, op_ = os.path.join(tmp, "jobs.pkl"), os.path.join(tmp, "out.pkl")
            pickle.dump([(pickle.dumps(original(cfg, hist), protocol=4), [w["cont"]], qs)], open(jp, "wb"))
            subprocess.run([sys.executable, "-m", "mcx.child", jp, op_], cwd=env.VERIF,
                           env=dict(os.environ, PYTHONHASHSEED=str(w.get("hashseed", "1"))), capture_output=True)
            got = pickle.load(open(op_, "rb"))[0]
        finally:
            for f in os.listdir(tmp):
                os.unlink(os.path.join(tmp, f))
            os.rmdir(tmp)
        o = original(cfg, hist)
        e = _run_cont(o, w["cont"])
        want = e or observe_inplace(o, qs)
        if isinstance(got, dict) or not ops.same(want, got[0]):
            return ["fresh-interpreter restore differs: original %r, restored %r" % (want, got)]
        return []
    return [m for _c, m in judge(cfg, hist, cf, w["method"], [w["cont"]])]
