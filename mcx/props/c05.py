"""C05 - results do not depend on n_jobs, backend or scheduling.

Four obligations, each exhaustive in its own bound (DESIGN section 7):
 ob1  _partition_contexts is an ordered exact cover for every n, n_jobs and cpu count
 ob2  row locality: every composition of every query batch into contiguous chunks, chunk
      tasks on isolated pickled copies and on the shared object, in every completion order,
      gives the n_jobs=1 result from the same stream position
 ob3  shared-memory regions (per-arm fit, LSH inserts, threading-backend prediction) under the
      opcode-level scheduler: every schedule with <= B preemptions reproduces the sequential
      model and outputs;   ob3r: free-running access-set recorder (write sets disjoint)
 ob4  conformance of the joblib model with real joblib (a handful of real runs; not deciding)"""
from .. import env  # noqa: F401
import contextlib
import copy
import itertools
import threading

import numpy as np

from .. import alphabet as A, canon, data, ops, report, sched

ID = "C05"
QROWS = [[0, 0], [1, 1], [2, 2], [0, 1], [2, 0], [1, 0]]
QDUP = [[1, 1], [1, 1], [0, 1], [0, 1], [1, 1], [2, 2]]      # consecutive rows with identical neighbourhoods


def meta(tier, seed):
    return {
        "rule": "ob1: case = (n, n_jobs, cpu_count), non-trivial iff n_jobs does not divide n or is negative / larger than n; "
                "ob2: case = (combination, call, batch, composition, semantics, completion order), non-trivial iff the "
                "composition has >= 2 chunks; ob3: case = one complete schedule, non-trivial iff it contains >= 1 "
                "preemption or a non-default completion order; ob4: one real joblib run each",
        "oracle": "ob1 exact ordered cover; ob2 outputs == n_jobs=1 outputs (bit-exact); ob3 learned state (structural "
                  "digest with unordered dict contents) and outputs == sequential execution, no task exception; ob3r no key "
                  "or attribute written by one task is read or written by another; ob4 real joblib output == model output",
        "bounds": {"ob1": "n in 1..64, n_jobs in {1..n+1,-1,-2,10^6}, cpu_count in {1,2,16}",
                   "ob2": "batches of 1..%d rows, all compositions, isolated + shared semantics, all completion orders "
                          "(<= 4 chunks; identity and reverse above)" % (4 if tier == "quick" else 5),
                   "ob3": "preemption bound %d at LOAD_ATTR/STORE_ATTR/BINARY_SUBSCR/STORE_SUBSCR/DELETE_SUBSCR/CALL/"
                          "BINARY_OP granularity; 2-3 tasks%s" % (1 if tier == "quick" else 2, "" if tier == "quick" else
                                                              " (bound 1 for ts/tree and eg5/tree predictions)"),
                   "ob4": "real joblib backends None/loky/threading/multiprocessing",
                   "ob5": "2600-row histories (fit 900 + partial_fit 1700) under n_jobs 1..4",
                   "ob6": "rewards +-1e308 / contexts 1e200 whose per-arm totals overflow, n_jobs 1..3"},
        "assumptions": ["calls into NumPy / scikit-learn / copy are atomic steps (frames outside mabwiser are not traced)",
                        "prediction tasks: only frames whose receiver belongs to the shared bandit graph are preemptible",
                        "the memory model below the GIL is not modelled"],
    }


# ================================================================== shards
FIT_LPS = ["eg0", "ucb", "sm", "pop", "ts", "tsb", "lg", "lucb", "lts1", "rnd"]
PRED_TARGETS = [("eg5", "rad"), ("ts", "rad"), ("lucb", "rad"), ("lts1", "rad"), ("ucb", "knn"), ("sm", "knn"),
                ("eg5", "lsh"), ("ts", "lsh"), ("sm", "clu"), ("lts1", "clu"), ("eg5", "mclu"),
                ("ucb", "tree"), ("ts", "tree"), ("eg5", "tree")]


def shards(tier, seed):
    out = [{"ob": 1, "seed": seed}]
    nmax = 4 if tier == "quick" else 5
    for ln, nn in A.combos(lints1=True):
        if nn == "none":
            continue
        out.append({"ob": 2, "ln": ln, "nn": nn, "nmax": nmax, "seed": 51 + seed})
    # metrics whose value for one row could depend on the other rows of the call (scipy derives the variance /
    # covariance from the stacked inputs): row locality must hold there too
    # a radius that covers the whole history (every row has the same neighbourhood) and repeated query rows: shortcuts
    # that reuse work between consecutive rows of a chunk must not make a row depend on its chunk
    for ln in ("lts1", "ts", "eg5", "ucb", "sm"):
        out.append({"ob": 2, "ln": ln, "nn": ["Radius", {"radius": 50.0, "metric": "euclidean"}], "nmax": nmax,
                    "seed": 51 + seed, "dup": True})
        out.append({"ob": 2, "ln": ln, "nn": ["KNearest", {"k": 8, "metric": "euclidean"}], "nmax": nmax,
                    "seed": 51 + seed, "dup": True})
        out.append({"ob": 2, "ln": ln, "nn": "lsh", "nmax": nmax, "seed": 51 + seed, "dup": True})
    for metric in ("seuclidean", "mahalanobis", "cosine"):
        for ln in ("eg0", "ucb"):
            out.append({"ob": 2, "ln": ln, "nn": ["Radius", {"radius": 1.5, "metric": metric}], "nmax": nmax,
                        "seed": 51 + seed})
            out.append({"ob": 2, "ln": ln, "nn": ["KNearest", {"k": 3, "metric": metric}], "nmax": nmax,
                        "seed": 51 + seed})
    bound = 1 if tier == "quick" else 2
    parts = 1 if tier == "quick" else 8
    for ln in FIT_LPS:
        for call in ("partial_fit", "fit"):
            if call == "fit" and (tier == "quick" and ln not in ("ucb", "lts1")):
                continue
            for part in range(parts):
                out.append({"ob": 3, "target": "fit", "ln": ln, "nn": "none", "call": call, "bound": bound,
                            "part": [part, parts], "seed": 53 + seed})
    for ln in ("eg0", "ts", "ucb"):
        for part in range(parts):
            out.append({"ob": 3, "target": "fit", "ln": ln, "nn": "tree", "call": "partial_fit", "bound": bound,
                        "part": [part, parts], "seed": 53 + seed})
    for part in range(parts):
        out.append({"ob": 3, "target": "lshfit", "ln": "eg0", "nn": "lsh", "call": "fit", "bound": bound,
                    "part": [part, parts], "seed": 53 + seed})
    for ln, nn in PRED_TARGETS:
        # randomised policies under TreeBandit (the subjects of known finding F-C05-a) stay at one preemption: their
        # two-preemption space alone is as large as that of all other targets together
        b = 1 if (nn == "tree" and ln != "ucb") else bound
        np_ = parts * 2 if (tier == "thorough" and b > 1) else 1
        for part in range(np_):
            out.append({"ob": 3, "target": "predict", "ln": ln, "nn": nn, "call": "predict_expectations",
                        "bound": b, "part": [part, np_], "seed": 53 + seed})
    for ln in FIT_LPS:
        out.append({"ob": "3r", "ln": ln, "nn": "none", "seed": 55 + seed})
    for ln in ("eg0", "ts"):
        out.append({"ob": "3r", "ln": ln, "nn": "tree", "seed": 55 + seed})
    out.append({"ob": "3r", "ln": "eg0", "nn": "lsh", "seed": 55 + seed})
    # histories beyond internal size thresholds (mini-batch sizes, chunking): the trained model must not depend on n_jobs
    for ln, nn in (("eg0", ["Clusters", {"n_clusters": 4, "is_minibatch": True}]), ("eg0", "mclu"),
                   ("ucb", ["Clusters", {"n_clusters": 3, "is_minibatch": False}]), ("eg0", "lsh"), ("ucb", "knn"),
                   ("lucb", "none"), ("ucb", "none")):
        out.append({"ob": 5, "ln": ln, "nn": nn, "seed": 59 + seed})
    for ln in ("eg0", "ucb", "sm", "lg", "lucb", "lts1"):
        out.append({"ob": 6, "ln": ln, "seed": 59 + seed})
    for backend in ([None, "threading"] if tier == "quick" else [None, "loky", "threading", "multiprocessing"]):
        out.append({"ob": 4, "backend": backend, "in_parent": True, "seed": 57 + seed, "tier": tier})
    out.sort(key=lambda s: 0 if s["ob"] == 3 and s["target"] == "predict" else 1 if s["ob"] == 2 else 2)
    return out


def determinism_shards(shards_):
    return [s for s in shards_ if s["ob"] == 2 and s["ln"] == "ucb" and s["nn"] == "rad"][:1]


# ================================================================== ob1
def ob1(shard, acc):
    import mabwiser.base_mab as bm
    imp = ops.build(A.config("eg0", "rad"))._imp
    real = bm.mp.cpu_count
    try:
        for cpu in (1, 2, 16):
            bm.mp.cpu_count = lambda cpu=cpu: cpu
            for n in range(1, 65):
                for nj in list(range(1, n + 2)) + [-1, -2, 10 ** 6]:
                    imp.n_jobs = nj
                    res = imp._partition_contexts(n)
                    acc.traces += 1
                    acc.state((cpu, n, nj))
                    acc.case((cpu, n, nj) if (nj < 0 or nj > n or n % nj) else None)
                    acc.outcome(res)
                    msg = _cover_msg(res, n)
                    if msg:
                        acc.violation("ob1 partition", {"ob": 1, "cpu": cpu, "n": n, "n_jobs": nj},
                                      "n=%d n_jobs=%d cpu_count=%d: %s -> %r" % (n, nj, cpu, msg, res))
        acc.sample({"ob": 1, "n": 7, "n_jobs": 3, "cpu_count": 16, "partition": list(imp.__class__._partition_contexts(
            _with_jobs(imp, 3), 7))})
    finally:
        bm.mp.cpu_count = real


def _with_jobs(imp, nj):
    imp.n_jobs = nj
    return imp


def _cover_msg(res, n):
    try:
        n_jobs, per, starts = res
        per, starts = list(per), list(starts)
    except Exception:                                         # noqa: BLE001
        return "unexpected return shape"
    if n_jobs < 1 or len(starts) != n_jobs + 1 or len(per) != n_jobs:
        return "chunk count / list lengths inconsistent"
    if starts[0] != 0 or starts[-1] != n:
        return "chunks do not span 0..n"
    if any(starts[i + 1] < starts[i] for i in range(n_jobs)):
        return "chunk starts not ordered"
    if any(per[i] != starts[i + 1] - starts[i] for i in range(n_jobs)):
        return "sizes disagree with starts"
    return None


# ================================================================== ob2
class FixedPartition:
    """Picklable stand-in for _partition_contexts returning a fixed composition."""

    def __init__(self, comp):
        self.comp = [tuple(c) for c in comp]

    def __call__(self, n_contexts):
        sizes = [b - a for a, b in self.comp]
        assert sum(sizes) == n_contexts
        return len(self.comp), sizes, [0] + [b for _a, b in self.comp]


def trained(cfg):
    mab = ops.build(cfg)
    arms = cfg["arms"]
    ops.apply(mab, data.batch("fit", arms, [0, 1, 0, 1, 0, 1], data.R6, data.X6, False))
    ops.apply(mab, data.batch("partial_fit", arms, [1, 0], [1, 0], [[1, 1], [0, 1]], False))
    return mab


def chunked_call(mab, call, q, comp, sem, prefix):
    """One execution: the library's own _parallel_predict with the composition forced and the joblib model."""
    m = copy.deepcopy(mab)
    m._imp._partition_contexts = FixedPartition(comp)
    m._imp.backend = "threading" if sem == "shared" else None
    m._imp.n_jobs = max(2, len(comp))
    ch = sched.Chooser(prefix)
    with sched.model(ch):
        out = ops.call(m, call, q)
    return out, ch


def ob2_judge(mab, call, q, comp, sem, prefix):
    ref = ops.call(copy.deepcopy(mab), call, q)
    out, _ = chunked_call(mab, call, q, comp, sem, prefix)
    if not ops.same(ref, out):
        return ["%s(%d rows) split %r, %s workers, order choices %r: %r; n_jobs=1 gives %r" % (
            call, len(q), comp, sem, prefix, out, ref)]
    return []


def ob2(shard, acc):
    ln, nn = shard["ln"], shard["nn"]
    cfg = A.config(ln, nn, seed=shard["seed"])
    mab = trained(cfg)
    for n in range(1, shard["nmax"] + 1):
        q = (QDUP if shard.get("dup") else QROWS)[:n]
        for call in ("predict", "predict_expectations"):
            ref = ops.call(copy.deepcopy(mab), call, q)
            acc.outcome(ref)
            for comp in A.compositions(n):
                if len(comp) == 1:
                    continue
                for sem in ("isolated", "shared"):
                    def run(ch, comp=comp, sem=sem):
                        m = copy.deepcopy(mab)
                        m._imp._partition_contexts = FixedPartition(comp)
                        m._imp.backend = "threading" if sem == "shared" else None
                        m._imp.n_jobs = max(2, len(comp))
                        with sched.model(ch):
                            return ops.call(m, call, q)
                    for ch, out in sched.explore_choices(run, 0):
                        acc.traces += 1
                        acc.case((ln, str(nn), call, n, str(comp), sem, tuple(ch.choices)))
                        acc.state((ln, str(nn), call, n, str(comp), sem, tuple(ch.choices)))
                        if not ops.same(ref, out):
                            acc.violation("ob2 %s/%s %s %s" % (ln, nn if isinstance(nn, str) else nn[0] + ":" + nn[1].get("metric", ""), call, sem),
                                          {"ob": 2, "cfg": cfg, "call": call, "q": q, "comp": comp, "sem": sem,
                                           "prefix": list(ch.choices)},
                                          "%s(%d rows) split %r, %s workers, completion order %r: %r; n_jobs=1 gives %r" % (
                                              call, n, comp, sem, ch.choices, out, ref))
        if n == 3:
            acc.sample({"ob": 2, "cfg": cfg, "query": q, "compositions": [str(c) for c in A.compositions(n)],
                        "semantics": ["isolated", "shared"], "orders": "all"})


# ================================================================== ob3
ARMS3 = [1, 2, 3]


def _fit_state(shard):
    ln, nn = shard["ln"], shard["nn"]
    cfg = A.config(ln, nn, arms=ARMS3, seed=shard["seed"], n_jobs=3)
    cf = ops.is_context_free(cfg)
    k = 1
    if ln == "tsb":
        # arm-dependent binarizer on rewards 0 / 2: a conversion that pairs a reward with another row's decision shows
        cfg["lp"] = ["ThompsonSampling", {"binarizer": "bin_arm_threshold"}]
        k = 2
    mab = ops.build(cfg)
    with sched.model():
        ops.apply(mab, data.batch("fit", ARMS3, [0, 1, 2, 0, 1, 0], [k * r for r in data.R6], data.X6, cf))
    op = data.batch(shard["call"], ARMS3, [0, 1, 2, 1, 2], [k * r for r in [1, 0, 1, 1, 0]],
                    [[1, 1], [0, 1], [2, 0], [0, 0], [1, 0]], cf)
    return cfg, mab, op, cf


def _view(mab, cf):
    q = [None] if cf else [[[0, 0], [1, 1], [2, 2]]]
    with sched.model():
        obs = ops.observe(mab, q)
    return canon.digest(mab, sort_dicts=True), obs


def ob3_setup(shard):
    """-> (cfg, run(chooser) -> view, sequential view, description)"""
    target = shard["target"]
    if target == "fit":
        cfg, base, op, cf = _fit_state(shard)

        def run(ch):
            m = copy.deepcopy(base)
            with sched.model(ch, preempt=True, ids=sched.shared_ids(m._imp)):
                ops.apply(m, op)
            return _view(m, cf)
        seq_m = copy.deepcopy(base)
        seq_m._imp.n_jobs = 1
        if hasattr(seq_m._imp, "lp"):
            pass
        with sched.model():
            ops.apply(seq_m, op)
        seq_m._imp.n_jobs = 3
        return cfg, run, _view(seq_m, cf), {"region": "_parallel_fit (require=sharedmem), 3 per-arm tasks", "op": op}
    if target == "lshfit":
        cfg = A.config(shard["ln"], "lsh", arms=[1, 2], seed=shard["seed"], n_jobs=2)
        op = data.batch("fit", [1, 2], [0, 1, 0, 1, 0, 1], data.R6, data.X6, False)

        def run(ch):
            m = ops.build(cfg)
            with sched.model(ch, preempt=True, ids=sched.shared_ids(m._imp)):
                ops.apply(m, op)
            return _view(m, False)
        c1 = dict(cfg, n_jobs=1)
        seq = ops.build(c1)
        ops.apply(seq, op)
        seq.n_jobs = seq._imp.n_jobs = 2
        return cfg, run, _view(seq, False), {"region": "LSH hashing (isolated) + _add_neighbors (sharedmem)", "op": op}
    # prediction through the threading backend: 2 chunk tasks on the shared implementor
    cfg = A.config(shard["ln"], shard["nn"], seed=shard["seed"], n_jobs=2, backend="threading")
    with sched.model():
        base = trained(cfg)
    q = QROWS[:4]
    call = shard["call"]

    def run(ch):
        m = copy.deepcopy(base)
        with sched.model(ch, preempt=True, ids=sched.shared_ids(m._imp)):
            out = ops.call(m, call, q)
        return canon.digest(m, skip_generators=True, sort_dicts=True), out
    s = copy.deepcopy(base)
    s._imp.n_jobs = 1
    out = ops.call(s, call, q)
    s._imp.n_jobs = 2
    return cfg, run, (canon.digest(s, skip_generators=True, sort_dicts=True), out), {
        "region": "_parallel_predict with backend='threading', 2 chunk tasks of 2 rows", "call": call, "query": q}


def ob3(shard, acc):
    cfg, run, want, desc = ob3_setup(shard)
    part, parts = shard["part"]
    root_filter = (lambda i: i % parts == part) if parts > 1 else None
    maxpoints = 0
    for ch, got in sched.explore_choices(run, shard["bound"], root_filter=root_filter):
        if parts > 1 and part != 0 and ch.preemptions() == 0:
            continue                      # executions without a preemption are run by every part and belong to part 0
        acc.traces += 1
        maxpoints = max(maxpoints, len(ch.points))
        nontrivial = ch.preemptions() > 0 or any(ch.choices)
        key = (shard["target"], shard["ln"], shard["nn"], shard["call"], tuple(i for i, c in enumerate(ch.choices) if c),
               tuple(c for c in ch.choices if c))
        acc.case(key if nontrivial else None)
        acc.state(key)
        acc.outcome(got[1] if shard["target"] == "predict" else got[0])
        if got != want:
            where = "learned state" if got[0] != want[0] else "outputs"
            acc.violation("ob3 %s %s/%s %s" % (shard["target"], shard["ln"], shard["nn"], where),
                          {"ob": 3, "cfg": cfg, "shard": {k: v for k, v in shard.items() if k != "part"},
                           "prefix": _trim(ch.choices)},
                          "%s: schedule with %d preemption(s) %r gives %s %r, sequential execution gives %r" % (
                              desc["region"], ch.preemptions(), _trim(ch.choices), where,
                              got[1] if where == "outputs" else got[0], want[1] if where == "outputs" else want[0]))
    if part == 0:
        acc.sample({"ob": 3, "cfg": cfg, "region": desc["region"], "preemption_bound": shard["bound"],
                    "scheduling_points": maxpoints})


def _trim(choices):
    c = list(choices)
    while c and c[-1] == 0:
        c.pop()
    return c


# ================================================================== ob3r: free-running access recorder
class RecDict(dict):
    """dict that records which task touches which key (free-running threads, no scheduler)."""
    log = None
    name = ""

    def _rec(self, key, mode):
        t = getattr(_TASK, "id", None)
        if t is not None and self.log is not None:
            self.log.append((t, self.name, repr(key), mode))

    def __getitem__(self, k):
        self._rec(k, "r")
        return dict.__getitem__(self, k)

    def get(self, k, d=None):
        self._rec(k, "r")
        return dict.get(self, k, d)

    def __contains__(self, k):
        self._rec(k, "r")
        return dict.__contains__(self, k)

    def __setitem__(self, k, v):
        self._rec(k, "w")
        dict.__setitem__(self, k, v)

    def __delitem__(self, k):
        self._rec(k, "w")
        dict.__delitem__(self, k)

    def pop(self, k, *a):
        self._rec(k, "w")
        return dict.pop(self, k, *a)

    def values(self):
        self._rec("*", "r")
        return dict.values(self)

    def items(self):
        self._rec("*", "r")
        return dict.items(self)

    def __iter__(self):
        self._rec("*", "r")
        return dict.__iter__(self)

    def __missing__(self, k):          # defaultdict-like tables are wrapped with their factory
        f = getattr(self, "factory", None)
        if f is None:
            raise KeyError(k)
        v = f()
        dict.__setitem__(self, k, v)
        self._rec(k, "w")
        return v


_TASK = threading.local()


def _wrap_shared(imp, log):
    """Replace every plain dict attribute of the implementor (and one level of nested dicts) by a RecDict;
    make attribute writes on the implementor itself visible."""
    for name, val in list(vars(imp).items()):
        if isinstance(val, dict) and name not in ("arm_to_status",):
            rd = RecDict(val)
            rd.log, rd.name = log, name
            if hasattr(val, "default_factory"):
                rd.factory = val.default_factory
            for k, v in list(val.items()):
                if isinstance(v, dict):
                    inner = RecDict(v)
                    inner.log, inner.name = log, "%s[%r]" % (name, k)
                    if hasattr(v, "default_factory"):
                        inner.factory = v.default_factory
                    dict.__setitem__(rd, k, inner)
            object.__setattr__(imp, name, rd)
    cls = imp.__class__

    def __setattr__(self, name, value):
        t = getattr(_TASK, "id", None)
        if t is not None:
            log.append((t, "self", name, "w"))
        object.__setattr__(self, name, value)
    imp.__class__ = type("Rec" + cls.__name__, (cls,), {"__setattr__": __setattr__})


class RecordingParallel:
    """joblib.Parallel stand-in for the recorder pass: shared-memory tasks on real, free-running threads."""

    def __init__(self, n_jobs=None, backend=None, require=None, **kw):
        self.shared = require == "sharedmem"

    def __call__(self, tasks):
        tasks = list(tasks)
        if not self.shared:
            return [f(*a, **k) for f, a, k in tasks]
        res, errs = [None] * len(tasks), []

        def body(i, f, a, k):
            _TASK.id = i
            try:
                res[i] = f(*a, **k)
            except BaseException as e:                        # noqa: BLE001
                errs.append(e)
            finally:
                _TASK.id = None
        ths = [threading.Thread(target=body, args=(i, f, a, k)) for i, (f, a, k) in enumerate(tasks)]
        for t in ths:
            t.start()
        for t in ths:
            t.join()
        if errs:
            raise errs[0]
        return res


def ob3r_run(cfg, ops_list):
    import mabwiser.base_mab as bm
    import mabwiser.approximate as ap
    log = []
    mab = ops.build(cfg)
    saved = (bm.Parallel, ap.Parallel)
    bm.Parallel = ap.Parallel = RecordingParallel
    try:
        for i, op in enumerate(ops_list):
            if i == len(ops_list) - 1:
                _wrap_shared(mab._imp, log)
            ops.apply(mab, op)
    finally:
        bm.Parallel, ap.Parallel = saved
    writes, reads = {}, {}
    for t, name, key, mode in log:
        (writes if mode == "w" else reads).setdefault((name, key), set()).add(t)
    msgs = []
    for loc, ws in writes.items():
        others = (ws | reads.get(loc, set()) | reads.get((loc[0], "'*'"), set())) - set()
        if len(ws) > 1:
            msgs.append("%s[%s] is written by tasks %r" % (loc[0], loc[1], sorted(ws)))
        elif len(others) > 1:
            msgs.append("%s[%s] is written by task %r and read by %r" % (loc[0], loc[1], sorted(ws), sorted(others - ws)))
    return msgs, len(log)


def ob3r(shard, acc):
    ln, nn = shard["ln"], shard["nn"]
    arms = ARMS3 if nn != "lsh" else [1, 2]
    cfg = A.config(ln, nn, arms=arms, seed=shard["seed"], n_jobs=3)
    cf = ops.is_context_free(cfg)
    seqs = [[data.batch("fit", arms, [0, 1, 2, 0, 1, 0], data.R6, data.X6, cf)],
            [data.batch("fit", arms, [0, 1, 2, 0, 1, 0], data.R6, data.X6, cf),
             data.batch("partial_fit", arms, [0, 1, 2, 1, 2], [1, 0, 1, 1, 0], [[1, 1], [0, 1], [2, 0], [0, 0], [1, 0]], cf)]]
    for ops_list in seqs:
        msgs, n = ob3r_run(cfg, ops_list)
        acc.traces += 1
        acc.case((ln, nn, len(ops_list)))
        acc.state(("3r", ln, nn, len(ops_list)))
        acc.counters["ob3r accesses recorded"] += n
        for m in msgs[:3]:
            acc.violation("ob3r %s/%s" % (ln, nn), {"ob": "3r", "cfg": cfg, "ops": ops_list}, m)


# ================================================================== ob4: real joblib
CONF_TARGETS = [("ucb", "none"), ("lts1", "none"), ("eg5", "rad"), ("ts", "knn"), ("lucb", "lsh"), ("sm", "clu"),
                ("ucb", "tree"), ("lts1", "rad")]


def ob4_case(ln, nn, n_jobs, backend, seed, real):
    cfg = A.config(ln, nn, arms=ARMS3, seed=seed, n_jobs=n_jobs, backend=backend)
    cf = ops.is_context_free(cfg)
    ctx = contextlib.nullcontext() if real else sched.model()
    with ctx:
        mab = ops.build(cfg)
        ops.apply(mab, data.batch("fit", ARMS3, [0, 1, 2, 0, 1, 0], data.R6, data.X6, cf))
        ops.apply(mab, data.batch("partial_fit", ARMS3, [1, 2], [1, 0], [[1, 1], [0, 1]], cf))
        q = None if cf else QROWS[:5]
        out = [ops.call(mab, "predict", q), ops.call(mab, "predict_expectations", q)]
    return cfg, out


def ob4(shard, acc):
    backend = shard["backend"]
    targets = CONF_TARGETS if shard["tier"] == "thorough" else CONF_TARGETS[:6]
    for ln, nn in targets:
        for n_jobs in ((2, 3, -1) if shard["tier"] == "thorough" else (2, -1)):
            cfg, real = ob4_case(ln, nn, n_jobs, backend, shard["seed"], True)
            _c, model = ob4_case(ln, nn, n_jobs, backend, shard["seed"], False)
            _c, seq = ob4_case(ln, nn, 1, None, shard["seed"], False)
            acc.traces += 1
            acc.case(("ob4", ln, nn, n_jobs, backend))
            acc.state(("ob4", ln, nn, n_jobs, backend))
            acc.counters["ob4 real joblib runs"] += 1
            if not ops.same(real, model):
                acc.violation("ob4 %s/%s backend=%s" % (ln, nn, backend),
                              {"ob": 4, "cfg": cfg, "ln": ln, "nn": nn},
                              "real joblib (n_jobs=%d, backend=%r) gives %r, the joblib model gives %r" % (
                                  n_jobs, backend, real, model))
            elif not ops.same(real, seq):
                acc.violation("ob4 %s/%s backend=%s vs n_jobs=1" % (ln, nn, backend),
                              {"ob": 4, "cfg": cfg, "ln": ln, "nn": nn},
                              "real joblib (n_jobs=%d, backend=%r) gives %r, n_jobs=1 gives %r" % (n_jobs, backend, real, seq))
    acc.sample({"ob": 4, "backend": backend, "targets": targets})


# ================================================================== ob5: long histories
def long_data(n):
    # unstructured contexts (no well separated groups): the clustering is sensitive to how k-means is run
    x = [[((i * 7919) % 1000) / 100.0, ((i * 104729) % 997) / 100.0] for i in range(n)]
    d = [1 + (i * 5 + i // 7) % 3 for i in range(n)]
    r = [float((i * 11) % 4) for i in range(n)]
    return d, r, x


def ob5_run(ln, nn, n_jobs, seed, n=2600):
    cfg = A.config(ln, nn, arms=ARMS3, seed=seed, n_jobs=n_jobs)
    cf = ops.is_context_free(cfg)
    d, r, x = long_data(n)
    with sched.model():
        mab = ops.build(cfg)
        ops.apply(mab, ["fit", d[:900], r[:900], None if cf else x[:900]])
        ops.apply(mab, ["partial_fit", d[900:], r[900:], None if cf else x[900:]])
        q = None if cf else x[::150]
        return cfg, [ops.call(mab, "predict", q), ops.call(mab, "predict_expectations", q)]


def ob5(shard, acc):
    ln, nn = shard["ln"], shard["nn"]
    _c, ref = ob5_run(ln, nn, 1, shard["seed"])
    acc.outcome(ref)
    for n_jobs in (2, 3, 4):
        cfg, got = ob5_run(ln, nn, n_jobs, shard["seed"])
        acc.traces += 1
        acc.case(("ob5", ln, str(nn), n_jobs))
        acc.state(("ob5", ln, str(nn), n_jobs))
        if not ops.same(ref, got):
            acc.violation("ob5 %s/%s n_jobs=%d" % (ln, nn if isinstance(nn, str) else nn[0], n_jobs),
                          {"ob": 5, "cfg": cfg, "ln": ln, "nn": nn},
                          "2600-row history: n_jobs=%d gives %r, n_jobs=1 gives %r" % (n_jobs, got, ref))
    acc.sample({"ob": 5, "combination": [ln, str(nn)], "rows": 2600, "n_jobs": [1, 2, 3, 4]})


# ================================================================== ob6: extreme magnitudes
def ob6_run(ln, n_jobs, seed):
    """fit + partial_fit on finite rewards whose per-arm totals overflow: whatever the library does with them (an
    inf model, an exception) must not depend on the number of jobs (thread-local state such as numpy's error
    settings differs between the calling thread and pool threads)."""
    import warnings
    cfg = A.config(ln, "none", arms=ARMS3, seed=seed, n_jobs=n_jobs)
    cf = ops.is_context_free(cfg)
    big = 1e308
    d1, r1 = [1, 2, 1, 2], [big, -big, big, -big]
    d2, r2 = [2, 1, 3], [-big, big, 1.0]
    x1, x2 = [[1e200, 1.0], [1.0, 1e200], [1e200, 2.0], [2.0, 1e200]], [[1.0, 0.0], [0.0, 1.0], [1.0, 1.0]]
    out = []
    with sched.model(), warnings.catch_warnings():
        warnings.simplefilter("ignore")
        mab = ops.build(cfg)
        for op in (["fit", d1, r1, None if cf else x1], ["partial_fit", d2, r2, None if cf else x2]):
            try:
                ops.apply(mab, op)
                out.append("ok")
            except Exception as e:                            # noqa: BLE001
                out.append(type(e).__name__)
        q = None if cf else [[1.0, 1.0], [0.0, 2.0]]
        out.append(ops.call(mab, "predict_expectations", q))
    return cfg, out


def ob6(shard, acc):
    ln = shard["ln"]
    _c, ref = ob6_run(ln, 1, shard["seed"])
    acc.outcome(ref)
    for n_jobs in (2, 3):
        cfg, got = ob6_run(ln, n_jobs, shard["seed"])
        acc.traces += 1
        acc.case(("ob6", ln, n_jobs))
        acc.state(("ob6", ln, n_jobs))
        if not ops.same(ref, got):
            acc.violation("ob6 %s n_jobs=%d" % (ln, n_jobs), {"ob": 6, "cfg": cfg, "ln": ln},
                          "overflowing totals: n_jobs=%d gives %r, n_jobs=1 gives %r" % (n_jobs, got, ref))
    acc.sample({"ob": 6, "policy": ln, "n_jobs": [1, 2, 3]})


# ================================================================== driver
def run_shard(shard):
    acc = report.Acc(ID, replay, shard)
    ob = shard["ob"]
    if ob == 1:
        ob1(shard, acc)
    elif ob == 2:
        ob2(shard, acc)
    elif ob == 3:
        ob3(shard, acc)
    elif ob == "3r":
        ob3r(shard, acc)
    elif ob == 5:
        ob5(shard, acc)
    elif ob == 6:
        ob6(shard, acc)
    else:
        ob4(shard, acc)
    return acc.result()


def replay(w):
    ob = w["ob"]
    if ob == 1:
        import mabwiser.base_mab as bm
        imp = ops.build(A.config("eg0", "rad"))._imp
        real = bm.mp.cpu_count
        try:
            bm.mp.cpu_count = lambda: w["cpu"]
            imp.n_jobs = w["n_jobs"]
            res = imp._partition_contexts(w["n"])
        finally:
            bm.mp.cpu_count = real
        m = _cover_msg(res, w["n"])
        return [m] if m else []
    if ob == 2:
        mab = trained(w["cfg"])
        return ob2_judge(mab, w["call"], w["q"], [tuple(c) for c in w["comp"]], w["sem"], w["prefix"])
    if ob == 3:
        shard = dict(w["shard"], part=[0, 1])
        cfg, run, want, desc = ob3_setup(shard)
        got = run(sched.Chooser(w["prefix"]))
        return [] if got == want else ["schedule %r: %r != sequential %r" % (w["prefix"], got, want)]
    if ob == "3r":
        return ob3r_run(w["cfg"], w["ops"])[0]
    if ob == 5:
        _c, ref = ob5_run(w["ln"], w["nn"], 1, w["cfg"]["seed"])
        _c, got = ob5_run(w["ln"], w["nn"], w["cfg"]["n_jobs"], w["cfg"]["seed"])
        return [] if ops.same(ref, got) else ["n_jobs=%d: %r != n_jobs=1: %r" % (w["cfg"]["n_jobs"], got, ref)]
    if ob == 6:
        _c, ref = ob6_run(w["ln"], 1, w["cfg"]["seed"])
        _c, got = ob6_run(w["ln"], w["cfg"]["n_jobs"], w["cfg"]["seed"])
        return [] if ops.same(ref, got) else ["n_jobs=%d: %r != n_jobs=1: %r" % (w["cfg"]["n_jobs"], got, ref)]
    cfg = w["cfg"]
    _c, real = ob4_case(w["ln"], w["nn"], cfg["n_jobs"], cfg["backend"], cfg["seed"], True)
    _c, model = ob4_case(w["ln"], w["nn"], cfg["n_jobs"], cfg["backend"], cfg["seed"], False)
    _c, seq = ob4_case(w["ln"], w["nn"], 1, None, cfg["seed"], False)
    return [] if ops.same(real, model) and ops.same(real, seq) else ["real %r model %r n_jobs=1 %r" % (real, model, seq)]
