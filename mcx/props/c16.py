"""C16 - Simulator bookkeeping is a faithful account of the data.

Bounded exhaustive enumeration of simulations (bandit kinds x data sets incl. arms absent from
train/test x test_size x ordered/random x every batch size x is_quick); in each, the split,
the per-arm statistics, the number/order of predictions and the three default evaluations are
recomputed independently from the raw data."""
from .. import env  # noqa: F401
import math

import numpy as np

from .. import alphabet as A, ops, report, simrun

ID = "C16"
KINDS = [("eg0", "none"), ("ts", "none"), ("rnd", "none"), ("lucb", "none"), ("ucb", "rad"), ("eg0", "knn"),
         ("ucb", "lsh"), ("eg0", "clu"), ("ucb", "tree"), ("tsb", "rad")]


COMPANIONS = {"rad_chebyshev": ["eg0", ["Radius", {"radius": 1.0, "metric": "chebyshev"}]],
              "knn_euclidean": ["eg0", ["KNearest", {"k": 3, "metric": "euclidean"}]]}


def meta(tier, seed):
    return {
        "rule": "a case = (bandit kind, data set, test_size, is_ordered, batch_size, is_quick); non-trivial iff an arm is "
                "absent from the training or the test part, or batch_size does not divide |test|, or neighbourhood "
                "statistics enter the evaluation; distinct by the full case",
        "oracle": "test indices and complement partition range(n) (last rows when ordered); one prediction per test row; "
                  "arm_to_stats_{total,train,test} == recomputation (count,sum,min,max,mean,population std) and "
                  "train+test == total for count and sum; min/avg/max analyses == independent re-implementation of the "
                  "documented rule (observed reward on a match, else training statistic, or the row's neighbourhood "
                  "statistic recomputed with integer distances for Radius / untied KNearest); evaluated counts sum to the "
                  "number of rows evaluated; per arm sum(min) <= sum(avg) <= sum(max); the account of a finished "
                  "simulation does not change when a further Simulator is created and run in the same process",
        "bounds": {"rows": [7, 9] if tier == "quick" else [7, 9, 10], "arms": "[1,2,3] with arm 3 never observed",
                   "test_size": [0.34, 0.5] if tier == "quick" else [0.25, 0.34, 0.5], "batch_size": "0..|test|",
                   "kinds": ["%s/%s" % k for k in KINDS],
                   "n_jobs": "1; additionally 2 (joblib model) for eg0/knn, ucb/rad, ucb/lsh",
                   "reward_level": "rewards in {0,1,2}; additionally 2**20 + {0,1,2} for eg0/none, ucb/rad, eg0/knn (sums exact "
                                   "in double precision, so the 1e-9 comparison asks for no more than a two-pass spread)",
                   "companions": "ucb/rad and eg0/knn additionally as the second bandit after %r" % sorted(COMPANIONS)},
        "assumptions": ["LSH neighbourhood statistics reported by the simulator are taken as input (C11 and C15 cover LSH)"],
    }


def shards(tier, seed):
    out = []
    for ln, nn in KINDS:
        for pattern in ("alt", "blocks", "late2"):
            out.append({"ln": ln, "nn": nn, "pattern": pattern, "tier": tier, "seed": 71 + seed})
    # the bandit under account is the second of two neighbourhood bandits in one simulation, the first one using
    # another metric: its account must still be that of its own neighbourhoods
    for ln, nn in (("ucb", "rad"), ("eg0", "knn")):
        for comp in COMPANIONS:
            for pattern in ("alt", "blocks", "late2"):
                out.append({"ln": ln, "nn": nn, "pattern": pattern, "tier": tier, "seed": 71 + seed, "companion": comp})
    # bandits that partition their predictions over two jobs (joblib model): the account of each test row must
    # still be that row's
    for ln, nn in (("eg0", "knn"), ("ucb", "rad"), ("ucb", "lsh")):
        for pattern in ("alt", "blocks", "late2"):
            out.append({"ln": ln, "nn": nn, "pattern": pattern, "tier": tier, "seed": 71 + seed, "n_jobs": 2})
    # rewards at a high level (2**20 + {0, 1, 2}: every sum exact in double precision): the reported spread must be
    # that of the rewards, not what is left of it after cancellation
    for ln, nn in (("eg0", "none"), ("ucb", "rad"), ("eg0", "knn")):
        for pattern in ("alt", "blocks", "late2"):
            out.append({"ln": ln, "nn": nn, "pattern": pattern, "tier": tier, "seed": 71 + seed, "level": 2 ** 20})
    return A.heavy_first(out)


def stats_of(values):
    if len(values) == 0:
        return {"count": 0, "sum": 0, "min": 0, "max": 0, "mean": 0, "std": 0}
    n = len(values)
    mean = sum(values) / n
    return {"count": n, "sum": sum(values), "min": min(values), "max": max(values), "mean": mean,
            "std": math.sqrt(sum((v - mean) ** 2 for v in values) / n)}


def stats_close(a, b, empty_nan=False):
    for k in ("count", "sum", "min", "max", "mean", "std"):
        x, y = a.get(k), b.get(k)
        if x is None or y is None:
            return False
        x, y = float(x), float(y)
        if math.isnan(x) and math.isnan(y):
            continue
        if abs(x - y) > 1e-9 * max(1.0, abs(y)):
            return False
    return True


def arm_stats(arms, dec, rew):
    return {a: stats_of([r for d, r in zip(dec, rew) if d == a]) for a in arms}


def evaluate(arms, dec, rew, preds, train_stats, stat, nstats):
    """Independent re-implementation of the documented default evaluation for one set of rows.
    nstats: per-row neighbourhood statistics ({arm: stats or {}} or None) or None."""
    per = {a: [] for a in arms}
    for i, p in enumerate(preds):
        if p == dec[i]:
            per[p].append(rew[i])
        elif nstats is not None and nstats[i] and nstats[i].get(p):
            per[p].append(nstats[i][p][stat])
        else:
            per[p].append(train_stats[p][stat])
    out = {}
    for a in arms:
        if per[a]:
            out[a] = stats_of([float(v) for v in per[a]])
        else:
            out[a] = {"count": 0, "sum": math.nan, "min": math.nan, "max": math.nan, "mean": math.nan, "std": math.nan}
    return out


def neighbourhood_stats(cfg, arms, hist, q, raw):
    """Exact neighbourhood statistics for Radius(cityblock) / KNearest(cityblock); None if not decidable (ties)."""
    kind, kw = cfg["np"]
    d = [sum(abs(a - b) for a, b in zip(x, q)) for _dec, _r, x in hist]
    if kind == "Radius":
        idx = [i for i, v in enumerate(d) if v <= kw["radius"]]
        if not idx:
            return {}
    else:
        k = kw["k"]
        srt = sorted(d)
        if len(srt) > k and srt[k - 1] == srt[k]:
            return None
        idx = sorted(range(len(d)), key=lambda i: d[i])[:k]
    out = {}
    for a in arms:
        vals = [raw[i] for i in idx if hist[i][0] == a]
        out[a] = stats_of(vals) if vals else {}
    return out


def account(sim):
    """Everything a finished simulation reports (normalised), to detect later changes."""
    name = "b0"
    return ops.norm([list(sim.test_indices), list(sim.bandit_to_predictions[name]),
                     {str(k): v for k, v in sim.arm_to_stats_train.items()},
                     repr(sim.bandit_to_arm_to_stats_avg[name]), repr(sim.bandit_to_arm_to_stats_min[name]),
                     repr(sim.bandit_to_arm_to_stats_max[name]), repr(sim.bandit_to_expectations[name]),
                     repr(sim.bandit_to_arm_to_stats_neighborhoods[name]), repr(sim.bandit_to_neighborhood_size[name]),
                     sorted(sim.bandit_to_predictions)])


_LAST = {}


def judge(cfg, dec, rew, X, params, companion=None):
    prev = _LAST.get("sim")
    try:
        if companion:
            ln_c, np_c = COMPANIONS[companion]
            first = A.config(ln_c, np_c, arms=cfg["arms"], seed=cfg["seed"] + 7)
            sim, _orig = simrun.run_sim([first, cfg], dec, rew, X, params)
        else:
            sim, _orig = simrun.run_sim([cfg], dec, rew, X, params)
        _LAST["sim"] = (sim, account(sim), params)
    except ValueError as e:
        if "Batch size" in str(e):
            return None
        return ["Simulator raised %s: %s" % (type(e).__name__, str(e)[:200])]
    except Exception as e:                                    # noqa: BLE001
        return ["Simulator raised %s: %s" % (type(e).__name__, str(e)[:200])]
    n, arms, name = len(dec), cfg["arms"], ("b1" if companion else "b0")
    msgs = []
    if prev is not None:
        # the account of the previous, finished simulation must not move when another simulation runs
        now = account(prev[0])
        if now != prev[1]:
            msgs.append("running this simulation changed what the previous, finished one (%r) reports: %r -> %r" % (
                prev[2], prev[1], now))
    te = [int(i) for i in sim.test_indices]
    tr_expected, te_expected = simrun.split_indices(n, params, te)
    if len(set(te)) != len(te) or any(i < 0 or i >= n for i in te):
        msgs.append("test indices %r are not distinct rows of the data" % (te,))
        return msgs
    if params["is_ordered"] and te != list(range(n - len(te), n)):
        msgs.append("ordered split: test indices %r are not the last rows" % (te,))
    if te != te_expected:
        msgs.append("test indices %r differ from the recomputed split %r" % (te, te_expected))
        return msgs
    tr = tr_expected
    if sorted(tr + te) != list(range(n)):
        msgs.append("train and test rows do not partition the data")
    d_tr, r_tr = [dec[i] for i in tr], [rew[i] for i in tr]
    d_te, r_te = [dec[i] for i in te], [rew[i] for i in te]
    x_te = [X[i] for i in te]
    for label, got, want in (("total", sim.arm_to_stats_total, arm_stats(arms, dec, rew)),
                             ("train", sim.arm_to_stats_train, arm_stats(arms, d_tr, r_tr)),
                             ("test", sim.arm_to_stats_test, arm_stats(arms, d_te, r_te))):
        if list(got) != arms or any(not stats_close(got[a], want[a]) for a in arms):
            msgs.append("arm_to_stats_%s %r != recomputation %r" % (label, got, want))
    for a in arms:
        for k in ("count", "sum"):
            if abs(float(sim.arm_to_stats_train[a][k]) + float(sim.arm_to_stats_test[a][k])
                   - float(sim.arm_to_stats_total[a][k])) > 1e-9:
                msgs.append("arm %r: train %s + test %s != total" % (a, k, k))
    preds = list(sim.bandit_to_predictions[name])
    if len(preds) != len(te):
        msgs.append("%d predictions for %d test rows" % (len(preds), len(te)))
        return msgs
    if any(p not in arms for p in preds):
        msgs.append("a prediction is not an arm: %r" % (preds,))
        return msgs
    # neighbourhood statistics
    nbr = cfg["np"] is not None and cfg["np"][0] in ("Radius", "KNearest", "LSHNearest") and not params["is_quick"]
    batch = params["batch_size"]
    train_stats = arm_stats(arms, d_tr, r_tr)
    nstats = None
    undecidable = False
    if nbr:
        reported = list(sim.bandit_to_arm_to_stats_neighborhoods[name])
        if len(reported) != len(te):
            msgs.append("%d neighbourhood statistics for %d test rows" % (len(reported), len(te)))
            return msgs
        nstats = reported
        if cfg["np"][0] != "LSHNearest":
            own = []
            hist = [(dec[i], rew[i], X[i]) for i in tr]
            raw = list(r_tr)
            for j, q in enumerate(x_te):
                if batch and j and j % batch == 0:
                    for jj in range(j - batch, j):
                        hist.append((d_te[jj], r_te[jj], x_te[jj]))
                        raw.append(r_te[jj])
                own.append(neighbourhood_stats(cfg, arms, hist, q, raw))
            for j, (o, r) in enumerate(zip(own, reported)):
                if o is None:
                    undecidable = True
                    continue
                r = r or {}
                for a in arms:
                    oa, ra = o.get(a) or {}, r.get(a) or {}
                    if bool(oa) != bool(ra) or (oa and not stats_close(oa, ra)):
                        msgs.append("test row %d: neighbourhood statistics %r, recomputed %r" % (j, r, o))
                        break
            nstats = [o if o is not None else r for o, r in zip(own, reported)]
    # evaluations
    groups = []
    if batch == 0:
        groups.append((None, list(range(len(te)))))
    else:
        nb = int(math.ceil(len(te) / batch))
        for b in range(nb):
            groups.append((b, list(range(b * batch, min((b + 1) * batch, len(te))))))
        groups.append(("total", list(range(len(te)))))
    for stat, store in (("min", sim.bandit_to_arm_to_stats_min), ("mean", sim.bandit_to_arm_to_stats_avg),
                        ("max", sim.bandit_to_arm_to_stats_max)):
        for key, rows in groups:
            got = store[name] if key is None else store[name].get(key)
            if got is None:
                msgs.append("no %s analysis for batch %r" % (stat, key))
                continue
            want = evaluate(arms, [d_te[i] for i in rows], [r_te[i] for i in rows], [preds[i] for i in rows],
                            train_stats, stat, [nstats[i] for i in rows] if nstats is not None else None)
            if list(got) != arms or any(not stats_close(got[a], want[a]) for a in arms):
                msgs.append("%s analysis of batch %r: %r, documented rule gives %r" % (stat, key, got, want))
            if sum(int(got[a]["count"]) for a in arms) != len(rows):
                msgs.append("%s analysis of batch %r evaluates %d rows, the batch has %d" % (
                    stat, key, sum(int(got[a]["count"]) for a in arms), len(rows)))
    for key, rows in groups:
        mn = sim.bandit_to_arm_to_stats_min[name] if key is None else sim.bandit_to_arm_to_stats_min[name].get(key)
        av = sim.bandit_to_arm_to_stats_avg[name] if key is None else sim.bandit_to_arm_to_stats_avg[name].get(key)
        mx = sim.bandit_to_arm_to_stats_max[name] if key is None else sim.bandit_to_arm_to_stats_max[name].get(key)
        if mn is None or av is None or mx is None:
            continue
        for a in arms:
            if int(mn[a]["count"]) == 0:
                continue
            if not (float(mn[a]["sum"]) <= float(av[a]["sum"]) + 1e-9 and float(av[a]["sum"]) <= float(mx[a]["sum"]) + 1e-9):
                msgs.append("arm %r batch %r: min/avg/max analyses not ordered: %r %r %r" % (
                    a, key, mn[a]["sum"], av[a]["sum"], mx[a]["sum"]))
    return msgs, {"undecidable": undecidable, "absent_train": any(a not in d_tr for a in arms),
                  "absent_test": any(a not in d_te for a in arms), "ntest": len(te), "preds": preds}


def data3(n, pattern):
    dec, rew, X = simrun.dataset(n, pattern)
    rew = [(i * 5 // 2 + i) % 3 for i in range(n)]          # rewards in {0,1,2}: min < mean < max within an arm
    return dec, rew, X


def run_shard(shard):
    if shard.get("n_jobs", 1) > 1:
        from .. import sched
        with sched.model():
            return _run_shard(shard)
    return _run_shard(shard)


def _run_shard(shard):
    from .c15 import param_space
    ln, nn, tier = shard["ln"], shard["nn"], shard["tier"]
    cfg = A.config(ln, nn, arms=[1, 2, 3], seed=shard["seed"], n_jobs=shard.get("n_jobs", 1))
    if ln == "tsb":
        cfg["lp"] = ["ThompsonSampling", {"binarizer": "bin_ge1"}]
    acc = report.Acc(ID, replay, shard)
    for n in ([7, 9] if tier == "quick" else [7, 9, 10]):
        dec, rew, X = data3(n, shard["pattern"])
        if ln == "ts":
            rew = [r % 2 for r in rew]
        if shard.get("level"):
            rew = [shard["level"] + r for r in rew]
        for params in param_space(tier, n, shard["seed"]):
            res = judge(cfg, dec, rew, X, params, shard.get("companion"))
            if res is None:
                acc.skip("batch size rejected by the Simulator (larger than its bound)")
                continue
            acc.traces += 1
            key = (ln, nn, n, shard["pattern"], str(params), shard.get("companion"), shard.get("n_jobs", 1), shard.get("level", 0))
            acc.state(key)
            if isinstance(res, list):
                msgs, info = res, {}
            else:
                msgs, info = res
            nontrivial = info.get("absent_train") or info.get("absent_test") or \
                (params["batch_size"] and info.get("ntest", 0) % params["batch_size"]) or \
                (cfg["np"] and cfg["np"][0] in ("Radius", "KNearest", "LSHNearest") and not params["is_quick"])
            acc.case(key if nontrivial else None)
            acc.outcome(ops.norm(info.get("preds")))
            if info.get("undecidable"):
                acc.counters["rows whose KNearest neighbourhood is tied (reported statistics used)"] += 1
            if len(acc.samples) < 2 and params["batch_size"] == 2:
                acc.sample({"cfg": cfg, "decisions": dec, "rewards": rew, "contexts": X, "params": params})
            for m in msgs[:2]:
                acc.violation("%s/%s %s" % (ln, nn, m.split(":")[0][:40]),
                              {"cfg": cfg, "dec": dec, "rew": rew, "X": X, "params": params,
                               "companion": shard.get("companion")}, m)
    return acc.result()


def replay(w):
    if w["cfg"].get("n_jobs", 1) > 1:
        from .. import sched
        with sched.model():
            res = judge(w["cfg"], w["dec"], w["rew"], w["X"], w["params"], w.get("companion"))
        return [] if res is None else (res if isinstance(res, list) else res[0])
    res = judge(w["cfg"], w["dec"], w["rew"], w["X"], w["params"], w.get("companion"))
    if res is None:
        return []
    return res if isinstance(res, list) else res[0]
