"""C01 - context-free policies compute the documented statistic of each arm's history.

Explicit-state BFS over histories {fit, partial_fit, add_arm, remove_arm, re-add}; the product
state is (canonical digest of the real bandit, exact-rational reference state).  After every
transition the learned expectations are compared with the reference model and the sampler of
predict_expectations is replayed exactly on a clone of the bandit's generator."""
from .. import env  # noqa: F401
import copy
import math
from fractions import Fraction

import numpy as np

from .. import alphabet as A, canon, ops, report

ID = "C01"
EPS = float(np.finfo(float).eps)

SETTINGS = [
    ("eg0", ["EpsilonGreedy", {"epsilon": 0}], "real"),
    ("eg5", ["EpsilonGreedy", {"epsilon": 0.5}], "real"),
    ("ucb0", ["UCB1", {"alpha": 0}], "real"),
    ("ucb1", ["UCB1", {"alpha": 1}], "real"),
    ("ucb25", ["UCB1", {"alpha": 2.5}], "real"),
    ("sm05", ["Softmax", {"tau": 0.5}], "real"),
    ("sm1", ["Softmax", {"tau": 1}], "real"),
    ("sm3", ["Softmax", {"tau": 3}], "real"),
    ("pop", ["Popularity", {}], "nonneg"),
    ("ts", ["ThompsonSampling", {}], "binary"),
    ("rnd", ["Random", {}], "real"),
]
REWARDS = {"real": [-1.5, 0, 2, 1e6], "nonneg": [0, 1e-9, 1, 3], "binary": [0, 1],
           "int8": [100, 0, 90], "int32": [2 ** 30, 0, 2 ** 30 + 5],
           # close means at a high level: the soft-max must depend on the differences of the means only
           "level": [2 ** 30, 2 ** 30 + 1 / 64, 2 ** 30 + 1]}
LEVEL = [("sm_lvl007", ["Softmax", {"tau": 0.07}]), ("sm_lvl0011", ["Softmax", {"tau": 0.011}]),
         ("ucb_lvl", ["UCB1", {"alpha": 1}]), ("eg_lvl", ["EpsilonGreedy", {"epsilon": 0}])]
# rewards handed over as narrow integer arrays whose per-arm totals leave the range of the dtype
NARROW = [("eg0", "int8"), ("eg0", "int32"), ("ucb1", "int8"), ("sm1", "int8"), ("pop", "int8"), ("pop", "int32")]
LABELS = {"int": ([0, 2], 1), "str": (["b", ""], "c")}          # falsy labels (0, "") included on purpose


def meta(tier, seed):
    return {
        "rule": "a transition is non-trivial iff the history up to it contains a partial_fit batch that omits a current "
                "arm, or an arm change after the first training call (there the per-arm bookkeeping can go wrong "
                "without any single-fit test noticing); distinct by product state (bandit digest, reference state)",
        "oracle": "reference model with exact rationals: mean = sum/n since the last fit; EpsilonGreedy exploit value = "
                  "mean; UCB1 = mean + alpha*sqrt(2 ln N / n); Softmax = exp((mean-max)/tau)/sum; Popularity = mean/sum "
                  "of means (degenerate sum 0: uniform shares); Thompson = Beta(1+successes, 1+failures); unobserved arm "
                  "0 / soft-max share / (1,1); predict_expectations() must equal the documented sampler replayed on a "
                  "clone of the generator (bit-exact); Random must ignore the data",
        "bounds": {"depth": 4 if tier == "quick" else 5, "arms": "2 initial (+1 added, re-adding removed labels)",
                   "rewards": REWARDS, "batches": "every 1-row batch; every ordered 2-row batch over current arms",
                   "settings": [s[0] for s in SETTINGS if not (tier == "quick" and s[0] in ("ucb0", "sm3"))], "labels": list(LABELS)},
        "assumptions": ["reward values outside the alphabet (e.g. cancellation at 1e300) are not explored"],
    }


def shards(tier, seed):
    out = []
    for name, lp, rk in SETTINGS:
        if tier == "quick" and name in ("ucb0", "sm3"):
            continue
        for labels in LABELS:
            parts = 1
            for part in range(parts):
                out.append({"setting": name, "lp": lp, "rk": rk, "labels": labels, "part": [part, parts],
                            "depth": 4 if tier == "quick" else 5, "seed": 21 + seed})
    for name, dt in NARROW:
        lp = [x[1] for x in SETTINGS if x[0] == name][0]
        for labels in LABELS:
            out.append({"setting": name + "/" + dt, "lp": lp, "rk": dt, "labels": labels, "part": [0, 1], "depth": 3,
                        "seed": 21 + seed, "dtype": dt})
    for name, lp in LEVEL:
        for labels in LABELS:
            out.append({"setting": name, "lp": lp, "rk": "level", "labels": labels, "part": [0, 1], "depth": 3,
                        "seed": 21 + seed})
    out.sort(key=lambda s: {"real": 0, "nonneg": 1, "binary": 2}.get(s["rk"], 3) + (s["setting"] == "rnd"))
    return out


# ---------------------------------------------------------------- reference model
def ref_new(arms):
    return {"stat": {a: (Fraction(0), 0) for a in arms}, "N": 0, "fitted": False, "removed": [],
            "omit": False, "armchange": False}


def ref_apply(ref, op):
    ref = {"stat": dict(ref["stat"]), "N": ref["N"], "fitted": ref["fitted"], "removed": list(ref["removed"]),
           "omit": ref["omit"], "armchange": ref["armchange"]}
    if op[0] in ("fit", "partial_fit"):
        if op[0] == "fit" or not ref["fitted"]:
            ref["stat"] = {a: (Fraction(0), 0) for a in ref["stat"]}
            ref["N"] = 0
            ref["fitted"] = True
        elif set(op[1]) != set(ref["stat"]):
            ref["omit"] = True
        for a, r in zip(op[1], op[2]):
            s, c = ref["stat"][a]
            ref["stat"][a] = (s + Fraction(r), c + 1)
        ref["N"] += len(op[1])
    elif op[0] == "add_arm":
        ref["stat"][op[1]] = (Fraction(0), 0)
        if op[1] in ref["removed"]:
            ref["removed"].remove(op[1])
        ref["armchange"] = ref["armchange"] or ref["fitted"]
    else:
        ref["stat"].pop(op[1])
        ref["removed"].append(op[1])
        ref["armchange"] = ref["armchange"] or ref["fitted"]
    return ref


def ref_key(ref):
    return repr((sorted((repr(a), s, c) for a, (s, c) in ref["stat"].items()), list(map(repr, ref["stat"])),
                 ref["N"], ref["fitted"], sorted(map(repr, ref["removed"]))))


def expected(kind, par, ref):
    st = ref["stat"]
    means = {a: (float(s / c) if c else 0.0) for a, (s, c) in st.items()}
    if kind == "EpsilonGreedy":
        return means
    if kind == "UCB1":
        return {a: (means[a] + par * math.sqrt(2 * math.log(ref["N"]) / c) if c else 0.0) for a, (s, c) in st.items()}
    if kind == "Softmax":
        mx = max(means.values())
        ex = {a: math.exp((v - mx) / par) for a, v in means.items()}
        t = sum(ex.values())
        return {a: v / t for a, v in ex.items()}
    if kind == "Popularity":
        t = sum(Fraction(s, c) if c else Fraction(0) for s, c in st.values())
        if t == 0:
            return None                     # degenerate: handled by popularity_degenerate_ok
        return {a: (float((Fraction(s, c) if c else Fraction(0)) / t)) for a, (s, c) in st.items()}
    if kind == "ThompsonSampling":
        return {a: (1 + int(s), 1 + c - int(s)) for a, (s, c) in st.items()}
    return None


def popularity_degenerate_ok(got, max_arms):
    """All current arms have mean 0: the statement only fixes 'the neutral value (0, or its uniform
    share)': expectations sum to one, every arm holds 0 or 1/j for an integer j <= largest arm count so far."""
    vals = list(got.values())
    if abs(sum(vals) - 1.0) > 1e-9:
        return False
    for v in vals:
        if v == 0:
            continue
        if not any(abs(v - 1.0 / j) <= 1e-12 for j in range(1, max_arms + 1)):
            return False
    return True


def close(x, y):
    return x == y or abs(x - y) <= 1e-9 * max(1.0, abs(x), abs(y))


def learned(kind, mab):
    imp = mab._imp
    if kind == "ThompsonSampling":
        return {a: (imp.arm_to_success_count[a], imp.arm_to_fail_count[a]) for a in mab.arms}
    return dict(imp.arm_to_expectation)


def sampler_replay(kind, par, mab):
    """The documented sampler on a clone of the generator -> expectations for one predict_expectations() call."""
    g = np.random.default_rng(0)
    g.bit_generator.state = copy.deepcopy(mab._rng.rng.bit_generator.state)
    imp, arms = mab._imp, list(mab.arms)
    if kind == "EpsilonGreedy":
        if g.random() < par:
            return {a: g.random() for a in arms}
        return dict(imp.arm_to_expectation)
    if kind in ("Softmax", "Popularity"):
        return dict(zip(arms, g.dirichlet([imp.arm_to_expectation[a] + EPS for a in arms], 1)[0]))
    if kind == "ThompsonSampling":
        return {a: g.beta(imp.arm_to_success_count[a], imp.arm_to_fail_count[a], 1)[0] for a in arms}
    if kind == "Random":
        return dict(zip(arms, g.random((1, len(arms)))[0]))
    return dict(imp.arm_to_expectation)


def check_state(mab, ref, kind, par, max_arms):
    """-> list of messages for a fitted state."""
    msgs = []
    arms = list(mab.arms)
    if arms != list(ref["stat"]):
        return ["arm list %r differs from the reference %r" % (arms, list(ref["stat"]))]
    if kind != "Random":
        got = learned(kind, mab)
        if list(got) != arms:
            msgs.append("learned-state keys %r != arms %r" % (list(got), arms))
        else:
            want = expected(kind, par, ref)
            if want is None and kind == "Popularity":
                if not popularity_degenerate_ok(got, max_arms):
                    msgs.append("all means are 0 but expectations %r are not neutral shares" % (got,))
            elif kind == "ThompsonSampling":
                if any((int(got[a][0]), int(got[a][1])) != want[a] or got[a][0] != int(got[a][0]) for a in arms):
                    msgs.append("Beta parameters %r, reference %r" % (got, want))
            elif any(not close(float(got[a]), want[a]) for a in arms):
                msgs.append("expectations %r, reference %r (history statistics %r, N=%d)" % (
                    {a: float(v) for a, v in got.items()}, want,
                    {a: (str(s), c) for a, (s, c) in ref["stat"].items()}, ref["N"]))
    try:
        out = copy.deepcopy(mab).predict_expectations()
    except Exception as e:                                    # noqa: BLE001
        return msgs + ["predict_expectations() raised %s: %s on a fitted bandit" % (type(e).__name__, str(e)[:100])]
    ops.COUNTERS["observations"] += 1
    want = sampler_replay(kind, par, mab)
    if not isinstance(out, dict) or list(out) != arms or any(not (float(out[a]) == float(want[a])) for a in arms):
        msgs.append("predict_expectations() %r is not the documented sampler on these parameters %r" % (out, want))
    return msgs


def enabled(arms, removed, rewards, new, dtype=None):
    out = []
    singles = [([a], [r]) for a in arms for r in rewards]
    pairs = [([a, b], [rewards[-1], rewards[0]]) for a in arms for b in arms]
    for kind in ("fit", "partial_fit"):
        for d, r in singles + pairs:
            out.append([kind, d, r, None] + ([{"r": dtype}] if dtype else []))
    if len(arms) < 3:
        for x in [new] + removed:
            if x not in arms:
                out.append(["add_arm", x])
    if len(arms) > 1:
        for a in arms:
            out.append(["remove_arm", a])
    return out


def run_shard(shard):
    kind, kw = shard["lp"]
    par = kw.get("epsilon", kw.get("alpha", kw.get("tau")))
    arms0, new = LABELS[shard["labels"]]
    cfg = {"arms": list(arms0), "lp": shard["lp"], "np": None, "seed": shard["seed"], "n_jobs": 1, "backend": None}
    rewards = REWARDS[shard["rk"]]
    acc = report.Acc(ID, replay, shard)
    acc.export_states = True          # shards split the first operation; reachable states overlap
    part, parts = shard["part"]
    m0, r0 = ops.build(cfg), ref_new(arms0)
    acc.state((canon.digest(m0), ref_key(r0)))
    frontier = [(m0, r0, [])]
    random_outputs = {}
    for depth in range(shard["depth"]):
        nxt = []
        for mab, ref, hist in frontier:
            for iop, op in enumerate(enabled(list(mab.arms), ref["removed"], rewards, new, shard.get("dtype"))):
                if depth == 0 and iop % parts != part:
                    continue
                m2 = copy.deepcopy(mab)
                try:
                    ops.apply(m2, op)
                except Exception as e:                        # noqa: BLE001
                    acc.violation("%s: valid %s raised %s" % (shard["setting"], op[0], type(e).__name__),
                                  {"cfg": cfg, "history": hist + [op]}, "valid call raised %s: %s" % (type(e).__name__, e))
                    continue
                r2 = ref_apply(ref, op)
                h2 = hist + [op]
                acc.traces += 1
                nontrivial = r2["fitted"] and (r2["omit"] or r2["armchange"])
                key = (canon.digest(m2), ref_key(r2))
                acc.case(key if nontrivial else None)
                if r2["fitted"]:
                    msgs = check_state(m2, r2, kind, par, 3)
                    acc.outcome([repr(learned(kind, m2)) if kind != "Random" else "", len(msgs)])
                    for msg in msgs:
                        sig = "%s %s %s" % (shard["setting"], msg.split(" ")[0],
                                            "omit" if r2["omit"] else "armchange" if r2["armchange"] else "plain")
                        acc.violation(sig, {"cfg": cfg, "history": h2}, msg)
                    if kind == "Random":
                        # Random ignores the data: same stream position + same arms => same output
                        k2 = (repr(m2._rng.rng.bit_generator.state), repr(list(m2.arms)))
                        o = ops.norm(copy.deepcopy(m2).predict_expectations())
                        if random_outputs.setdefault(k2, o) != o:
                            acc.violation("rnd depends on data", {"cfg": cfg, "history": h2},
                                          "Random policy output depends on the training data")
                if acc.state(key):
                    nxt.append((m2, r2, h2))
                    if nontrivial and len(h2) <= 3:
                        acc.sample({"cfg": cfg, "history": h2})
        frontier = nxt
    return acc.result()


def replay(w):
    cfg = w["cfg"]
    kind, kw = cfg["lp"]
    par = kw.get("epsilon", kw.get("alpha", kw.get("tau")))
    mab, ref = ops.build(cfg), ref_new(cfg["arms"])
    for op in w["history"]:
        try:
            ops.apply(mab, op)
        except Exception as e:                                # noqa: BLE001
            return ["valid call %r raised %s" % (op[0], type(e).__name__)]
        ref = ref_apply(ref, op)
    return check_state(mab, ref, kind, par, 3) if ref["fitted"] else []
