"""C06 - incremental training equals batch training.

Bounded exhaustive enumeration: every row sequence up to n rows over a 4-row alphabet x every
composition of the sequence into fit + partial_fit* for every context-free policy, every
linear policy (scale=False) and Radius / KNearest / LSHNearest / Clusters over them; the
chunk-trained bandit is compared with the single-fit bandit from the same stream position."""
from .. import env  # noqa: F401
import itertools

from .. import alphabet as A, canon, ops, report

ID = "C06"
ROWS = [(1, [0, 0], 1), (2, [1, 1], 0), (1, [1, 0], 0), (2, [0, 1], 1)]
# rewards actually passed for the policies that take real rewards: whole numbers (Python ints) on the first two rows,
# fractions on the others - a first chunk of whole numbers gives an integer history that later chunks must widen
REAL_REWARD = {0: 3, 1: 0, 2: 0.75, 3: 2.25}
QUERIES = [[0, 0], [1, 1], [1, 0], [2, 2]]


def meta(tier, seed):
    return {
        "rule": "a case = (combination, row sequence, composition); non-trivial iff the composition has >= 2 chunks and "
                "some chunk omits an arm that occurs elsewhere in the sequence or has a single row; distinct by the full case",
        "oracle": "bandit trained by fit(first chunk) + partial_fit(remaining chunks) vs bandit trained by one fit on the "
                  "whole sequence, generator positions aligned by object-graph path: either the complete canonical object "
                  "graphs are identical (then all futures are) or predict / predict_expectations on the query set must be "
                  "bit-identical (count/sum and neighbourhood policies) / within 1e-9 (linear policies)",
        "bounds": {"rows_max": "4 (3 for the non-representative policies under a neighbourhood policy)" if tier == "quick" else 5, "row_alphabet": ROWS, "queries": QUERIES,
                   "excluded_by_statement": ["TreeBandit", "scale=True"],
                   "n_jobs": "1; additionally 2 (joblib model, default schedule) for %r with up to %d rows" % (
                       TWO_JOBS, 3 if tier == "quick" else 4)},
        "assumptions": ["a first chunk a policy cannot be fitted on (fewer rows than clusters / than k) is not a valid "
                        "training prefix: skipped and counted"],
    }


TWO_JOBS = [("eg0", "lsh"), ("ucb", "clu"), ("ts", "rad"), ("sm", "knn"), ("lts1", "none"), ("tsb", "none"), ("lucb", "mclu")]


def shards(tier, seed):
    out = []
    for ln, nn in A.combos(lints1=True):
        if nn == "tree":
            continue
        nmax = 4 if tier == "quick" else 5
        if tier == "quick" and nn != "none" and ln not in ("eg0", "ucb", "ts", "lucb", "lts"):
            nmax = 3            # the other policies under a neighbourhood policy: shorter sequences in the quick tier
        out.append({"ln": ln, "nn": nn, "nmax": nmax, "seed": 91 + seed})
    # the same equivalence with the work of every call partitioned over two jobs (joblib model, default schedule)
    for ln, nn in TWO_JOBS:
        out.append({"ln": ln, "nn": nn, "nmax": 3 if tier == "quick" else 4, "seed": 91 + seed, "n_jobs": 2})
    return A.heavy_first(out)


def reward(ln, r, row=None):
    if ln == "tsb":
        return r * 2            # with the binarizer r >= 2 (not idempotent on {0,1}): 0 -> 0, 2 -> 1
    if ln == "ts":
        return r
    if row is not None:
        return REAL_REWARD[ROWS.index(tuple(row) if not isinstance(row, tuple) else row)]
    return r * 2.5 + 0.5            # exactly representable, partial sums exact


def train(cfg, ln, seq, comp):
    cf = ops.is_context_free(cfg)
    mab = ops.build(cfg)
    for i, (a, b) in enumerate(comp):
        rows = seq[a:b]
        op = ["fit" if i == 0 else "partial_fit", [r[0] for r in rows], [reward(ln, r[2], (r[0], r[1], r[2])) for r in rows],
              None if cf else [list(r[1]) for r in rows]]
        ops.apply(mab, op)
    return mab


def compare(cfg, ln, batch, chunked):
    cf = ops.is_context_free(cfg)
    strict = ln in ("lts", "lts1")
    ignore = (".arm_to_model",) if ln in ("lg", "lucb") else ()
    synced = canon.sync_streams(batch, chunked, strict, ignore)
    if not synced and ln == "lts1":
        return None
    if synced and canon.digest(batch) == canon.digest(chunked):
        return []
    qs = [None] if cf else [QUERIES, QUERIES[1:2]]
    calls = ("predict_expectations",) if (ln == "lts" and not synced) else ("predict", "predict_expectations")
    oa, ob = ops.observe(batch, qs, calls), ops.observe(chunked, qs, calls)
    oa.append(ops.norm(list(batch.cold_arms)))
    ob.append(ops.norm(list(chunked.cold_arms)))
    tol = 1e-6 if ln == "lts" else 1e-9 if ln in A.LINEAR_LPS else 0.0
    if not ops.same(oa, ob, rtol=tol, atol=tol):
        return ["incremental %r != single fit %r" % (ob, oa)]
    return []


def judge(cfg, ln, seq, comp, batch=None):
    """-> list of messages | None (not comparable) | 'invalid-prefix'"""
    if batch is None:
        try:
            batch = train(cfg, ln, seq, [(0, len(seq))])
        except Exception:                                     # noqa: BLE001
            return "invalid"
    try:
        chunked = train(cfg, ln, seq, comp)
    except Exception as e:                                    # noqa: BLE001
        # is the first chunk alone a valid training set?
        try:
            train(cfg, ln, seq[:comp[0][1]], [(0, comp[0][1])])
        except Exception:                                     # noqa: BLE001
            return "invalid"
        return ["incremental training raised %s: %s although a single fit on the same rows succeeds" % (
            type(e).__name__, str(e)[:120])]
    import copy
    return compare(cfg, ln, copy.deepcopy(batch), chunked)


def run_shard(shard):
    if shard.get("n_jobs", 1) > 1:
        from .. import sched
        with sched.model():
            return _run_shard(shard)
    return _run_shard(shard)


def _run_shard(shard):
    ln, nn = shard["ln"], shard["nn"]
    cfg = A.config(ln, nn, seed=shard["seed"], n_jobs=shard.get("n_jobs", 1))
    if ln == "tsb":
        cfg["lp"] = ["ThompsonSampling", {"binarizer": "bin_ge2"}]
    acc = report.Acc(ID, replay, shard)
    for n in range(1, shard["nmax"] + 1):
        for seq in itertools.product(ROWS, repeat=n):
            seq = list(seq)
            try:
                batch = train(cfg, ln, seq, [(0, n)])
                if nn == "knn" and n < 2:
                    raise ValueError
            except Exception:                                 # noqa: BLE001
                acc.skip("row sequence is not a valid training set for this policy")
                continue
            arms_in_seq = {r[0] for r in seq}
            for comp in A.compositions(n):
                if len(comp) == 1:
                    continue
                res = judge(cfg, ln, seq, comp, batch)
                if res == "invalid":
                    acc.skip("first chunk is not a valid training set for this policy")
                    continue
                if res is None:
                    acc.skip("LinTS(alpha=1): generator identities differ, not comparable")
                    continue
                acc.traces += 1
                omit = any({r[0] for r in seq[a:b]} != arms_in_seq or b - a == 1 for a, b in comp)
                key = (ln, nn, str(seq), str(comp))
                acc.case(key if omit else None)
                acc.state(key)
                acc.outcome([ln, nn, len(comp), len(res)])
                if res:
                    acc.violation("%s/%s chunks=%d" % (ln, nn, len(comp)), {"cfg": cfg, "ln": ln, "seq": seq, "comp": comp}, res[0])
                elif n == 3 and len(comp) == 2 and len(acc.samples) < 2:
                    acc.sample({"cfg": cfg, "rows": seq, "composition": comp, "queries": QUERIES})
    return acc.result()


def replay(w):
    if w["cfg"].get("n_jobs", 1) > 1:
        from .. import sched
        with sched.model():
            res = judge(w["cfg"], w["ln"], [tuple(r) for r in w["seq"]], [tuple(c) for c in w["comp"]])
        return res if isinstance(res, list) else []
    res = judge(w["cfg"], w["ln"], [tuple(r) for r in w["seq"]], [tuple(c) for c in w["comp"]])
    return res if isinstance(res, list) else []
