"""C04 - seeded runs are reproducible and bandit instances are isolated.

(a) every order-preserving interleaving (all C(8,3) = 56 merges) of a 5-step subject script
    with a 3-step script of another bandit (other seed, other data) built from the same policy
    tuple objects / from default-constructed tuples / a TreeBandit bandit, for every policy
    combination: the subject's outputs must equal those of the subject run alone;
(b) the subject script in fresh interpreters with PYTHONHASHSEED in {0, 1, 4242, random}."""
from .. import env  # noqa: F401
import hashlib
import json
import os
import subprocess
import sys

import math

import numpy as np
from sklearn.tree import DecisionTreeRegressor

from .. import alphabet as A, ops, report
from mabwiser.mab import MAB, LearningPolicy, NeighborhoodPolicy

ID = "C04"

# three identical feature columns: which one a tree splits on is decided by random_state alone,
# and the one-hot queries make that choice observable
XT = [[0, 0, 0], [1, 1, 1], [2, 2, 2], [3, 3, 3], [0, 0, 0], [3, 3, 3]]
QT = [[3, 0, 0], [0, 3, 0], [0, 0, 3]]
X2 = [[0, 0], [0, 1], [1, 0], [1, 1], [2, 0], [0, 2]]
Q2 = [[0, 0], [1, 1], [2, 2]]
DEC = [1, 2, 1, 2, 1, 2]
REW = [0, 0, 1, 1, 0, 1]


def meta(tier, seed):
    return {
        "rule": "(a) a case = (combination, interferer kind, merge); non-trivial iff an interferer step lies between two "
                "subject steps; (b) a case = (combination, hash seed); distinct by the full case",
        "oracle": "output digest of the subject script (predict and predict_expectations results, in order) equals the "
                  "digest of the same script run alone in the same process; (b) equals the digest computed in the parent",
        "bounds": {"merges": 56, "interferers": ["same policy-tuple objects", "default-constructed tuples (subject too)",
                                                 "a TreeBandit bandit", "code that draws from and re-seeds numpy's and "
                                                 "random's process-wide generators",
                                                 "a Clusters bandit trained on the very float64 array object the subject "
                                                 "is trained on (contextual subjects)"],
                   "hash_seeds": ["0", "1", "4242", "random"],
                   "bandit_seeds": "101 + VERIF_SEED for every combination; additionally seed 0 for %d randomised ones" % len(ZERO_SEED),
                   "tree_driver": "three identical feature columns, one-hot queries, interferer seed = first seed whose "
                                  "stand-alone DecisionTreeRegressor splits on a different column"},
        "assumptions": ["OMP/BLAS threads = 1 (stated by the property)"],
    }


ZERO_SEED = [("eg5", "none"), ("ts", "none"), ("sm", "none"), ("lts1", "none"), ("rnd", "none"), ("eg5", "rad"),
             ("ts", "knn"), ("eg5", "lsh"), ("sm", "clu"), ("eg5", "mclu"), ("ts", "tree")]


def shards(tier, seed):
    out = []
    for ln, nn in A.combos(lints1=True):
        out.append({"part": "a", "ln": ln, "nn": nn, "seed": 101 + seed})
    for hs in ("0", "1", "4242", "random"):
        out.append({"part": "b", "hashseed": hs, "seed": 101 + seed})
    # the seed value 0 (falsy): a seeded run must be reproducible for it as for any other seed
    for ln, nn in ZERO_SEED:
        out.append({"part": "a", "ln": ln, "nn": nn, "seed": 0})
    out.append({"part": "b", "hashseed": "1", "seed": 0})
    return A.heavy_first(out)


def determinism_shards(shards_):
    return [s for s in shards_ if s["part"] == "a" and s["ln"] == "ucb" and s["nn"] == "rad"][:1]


# ---------------------------------------------------------------- policy tuple objects (NOT copied per bandit)
def tuples(ln, nn, default):
    name, kw = A.LPS[ln]
    kw = dict(kw)
    if "binarizer" in kw:
        kw["binarizer"] = ops.BINARIZERS[kw["binarizer"]]
    lp = getattr(LearningPolicy, name)() if default else getattr(LearningPolicy, name)(**kw)
    if A.NPS[nn] is None:
        return lp, None
    nname, nkw = A.NPS[nn]
    if default:
        if nname == "Clusters":
            return lp, NeighborhoodPolicy.Clusters(is_minibatch=nkw["is_minibatch"])
        return lp, getattr(NeighborhoodPolicy, nname)()
    return lp, getattr(NeighborhoodPolicy, nname)(**nkw)      # tree_parameters: the caller's own dict object


def other_seed(s):
    """First seed > s whose stand-alone tree on the subject's data splits on a different column."""
    y = [r for d, r in zip(DEC, REW) if d == 2] + [r for d, r in zip(DEC, REW) if d == 1]
    x = np.asarray([x for d, x in zip(DEC, XT) if d == 2] + [x for d, x in zip(DEC, XT) if d == 1])

    def root(seed):
        return int(DecisionTreeRegressor(random_state=seed).fit(np.asarray(XT), REW).tree_.feature[0])
    base = root(s)
    t = s + 1
    while root(t) == base and t < s + 200:
        t += 1
    return t


def scripts(ln, nn, kind, seed):
    """-> (subject steps, interferer steps); each step is a closure over a shared env dict."""
    cf = A.context_free(ln, nn)
    tree = nn == "tree"
    x, q = (XT, QT) if tree else (X2, Q2)
    if ln in ("lts", "lts1") and nn == "none" and kind == "global":
        # ill-conditioned on purpose (identical columns, magnitude 1e6): whatever the library does when the sampling
        # covariance is not positive definite - raise, or fall back - must not involve process-wide generators
        m_ = 1e6
        x = [[m_ * (i + 1), m_ * (i + 1), 2 * m_ * (i + 1)] for i in range(6)]
        q = [[m_, 2 * m_, 3 * m_], [3 * m_, m_, m_], [2 * m_, 2 * m_, m_]]
    lp_s, np_s = tuples(ln, nn, default=(kind == "default"))
    lp_i = np_i = None
    icf, ix = cf, x
    if kind == "global":
        # not a bandit at all: code that uses (and re-seeds) the process-wide generators between the subject's calls
        import random as _random

        def g1():
            np.random.seed(seed + 17)
            _random.seed(seed + 17)

        def g2():
            np.random.random(7)
            np.random.shuffle(list(range(5)))
            _random.random()

        def g3():
            np.random.seed(None)
            np.random.randint(0, 10, size=3)
    if kind == "shared":
        # the interferer (k-means clustering, which centres its input) is trained on the very array object - float64,
        # C-contiguous, non-dyadic values - that the subject is trained on: whatever it does with its input must not
        # reach the subject through the caller's data
        lp_i, np_i = LearningPolicy.EpsilonGreedy(0), NeighborhoodPolicy.Clusters(2)
        icf = False
        # generic reals (full mantissas): an in-place centring that is undone afterwards does not round-trip on them
        d_ = len(x[0])
        shared = np.ascontiguousarray([[math.sqrt(2 + 3 * i + j) * math.pi ** (j + 1) / (1 + i % 3) for j in range(d_)]
                                       for i in range(len(x))], dtype=np.float64)
        sq = np.ascontiguousarray(shared[:3] * 1.0001 + 0.01)
    if kind == "tree":
        lp_i, np_i = LearningPolicy.EpsilonGreedy(0), NeighborhoodPolicy.TreeBandit()
        icf, ix = False, XT
    elif kind != "global":
        lp_i, np_i = lp_s, np_s                                # the very same tuple objects
        icf, ix = cf, x
    s2 = other_seed(seed)
    E = {}
    outs_extra = []

    def s_construct():
        E["s"] = MAB([1, 2], lp_s, np_s, seed=seed)

    def s_fit():
        if kind == "shared":
            return E["s"].fit(list(DEC), list(REW), shared)
        E["s"].fit(list(DEC), list(REW)) if cf else E["s"].fit(list(DEC), list(REW), [list(r) for r in x])

    def s_predict():
        if kind == "shared":
            return E["s"].predict(sq)
        return E["s"].predict() if cf else E["s"].predict([list(r) for r in q])

    def s_pfit():
        if tree:
            # an arm added after fit gets its tree at its first data; with tied feature columns the split is decided
            # by the tree's random state alone, which must come from the bandit's seed, not from process-wide state
            E["s"].add_arm(3)
            E["s"].partial_fit([3, 3, 3, 1], [1, 0, 1, 0], [list(XT[3]), list(XT[0]), list(XT[2]), list(XT[1])])
        elif cf or nn == "none":
            # an arm added later and warm-started from its neighbour: its status must be its own, not something shared
            # with arms added to other bandits of the process
            E["s"].add_arm(3)
            E["s"].warm_start({1: [1.0, 0.0], 2: [0.0, 1.0], 3: [1.0, 0.2]}, 1.0)
            if cf:
                E["s"].partial_fit([2, 1], [1, 0])
            else:
                E["s"].partial_fit([2, 1], [1, 0], [list(x[1]), list(x[2])])
            outs_extra.append(ops.norm(list(E["s"].cold_arms)))
        else:
            E["s"].partial_fit([2, 1], [1, 0], [list(x[1]), list(x[2])])

    def s_expect():
        if kind == "shared":
            return [E["s"].predict_expectations(sq), list(outs_extra)]
        e = E["s"].predict_expectations() if cf else E["s"].predict_expectations([list(r) for r in q])
        return [e, list(outs_extra)]

    def i_construct():
        E["i"] = MAB([1, 2], lp_i, np_i, seed=s2)

    def i_fit():
        d, r = [2, 2, 1, 1, 2, 1], [1, 0, 1, 1, 1, 0]
        if kind == "shared":
            return E["i"].fit(d, r, shared)
        E["i"].fit(d, r) if icf else E["i"].fit(d, r, [list(v) for v in reversed(ix)])
        if kind == "tree" or tree:
            E["i"].add_arm(7)
            E["i"].partial_fit([7, 7, 7], [0, 1, 1], [list(XT[1]), list(XT[3]), list(XT[0])])
        elif np_i is None:
            E["i"].add_arm(7)
            E["i"].warm_start({1: [1.0, 0.0], 2: [0.0, 1.0], 7: [0.1, 1.0]}, 1.0)

    def i_predict():
        if kind == "shared":
            return E["i"].predict(sq)
        E["i"].predict() if icf else E["i"].predict([list(v) for v in ix[:2]])
    if kind == "global":
        return [s_construct, s_fit, s_predict, s_pfit, s_expect], [g1, g2, g3]
    return [s_construct, s_fit, s_predict, s_pfit, s_expect], [i_construct, i_fit, i_predict]


def run_merge(ln, nn, kind, seed, merge):
    """merge: string over {'S','I'}.  -> normalised outputs of the subject steps."""
    S, I = scripts(ln, nn, kind, seed)
    si = ii = 0
    outs = []
    for c in merge:
        ops.COUNTERS["transitions"] += 1
        if c == "S":
            try:
                outs.append(ops.norm(S[si]()))
            except Exception as e:                            # noqa: BLE001  (an exception is an output, too)
                outs.append({"__exc__": type(e).__name__})
            si += 1
        else:
            try:
                I[ii]()
            except Exception:                                 # noqa: BLE001
                pass
            ii += 1
    return outs


def all_merges():
    out = []
    for m in A.merges("SSSSS", "III"):
        out.append("".join("S" if side == "a" else "I" for side, _ in m))
    return out


def part_a(shard, acc):
    ln, nn, seed = shard["ln"], shard["nn"], shard["seed"]
    for kind in ("same", "default", "tree", "global", "shared"):
        if kind == "shared" and (A.context_free(ln, nn) or nn == "tree"):
            continue                      # no context array to share
        try:
            alone = run_merge(ln, nn, kind, seed, "SSSSS")
            again = run_merge(ln, nn, kind, seed, "SSSSS")
        except Exception as e:                                # noqa: BLE001
            acc.skip("subject script not runnable with %s tuples: %s" % (kind, type(e).__name__))
            continue
        acc.outcome(alone)
        if alone != again:
            acc.violation("%s/%s repeat" % (ln, nn), {"ln": ln, "nn": nn, "kind": kind, "seed": seed, "merge": "SSSSS"},
                          "the same script run twice in one process gives %r then %r" % (alone, again))
        for merge in all_merges():
            try:
                got = run_merge(ln, nn, kind, seed, merge)
            except Exception as e:                            # noqa: BLE001
                got = {"__exc__": type(e).__name__}
            acc.traces += 1
            key = (ln, nn, kind, merge)
            acc.state(key)
            acc.case(key if "SI" in merge.rstrip("I") and "IS" in merge else None)
            if got != alone:
                acc.violation("%s/%s interferer=%s" % (ln, nn, kind),
                              {"ln": ln, "nn": nn, "kind": kind, "seed": seed, "merge": merge},
                              "merge %s with a %s interferer: subject outputs %r, alone %r" % (merge, kind, got, alone))
        if kind == "same":
            acc.sample({"combination": [ln, nn], "subject_seed": seed, "interferer_seed": other_seed(seed),
                        "merges": all_merges()[:5] + ["..."], "interferer": kind})


# ---------------------------------------------------------------- (b) processes
def str_script_digests(seed, reverse=False):
    """Digest of the outputs of a richer script with str arm labels, per combination.  reverse: the combinations are
    run in the opposite order (whatever earlier bandits leave behind in the process then differs)."""
    out = {}
    combos_ = A.combos(lints1=True)
    for ln, nn in (reversed(combos_) if reverse else combos_):
        cfg = A.config(ln, nn, arms=["b", "a", "c"], seed=seed)
        cf = ops.is_context_free(cfg)
        tree = nn == "tree"
        x, q = (XT, QT) if tree else (X2, Q2)
        m = ops.build(cfg)
        dec = ["b", "a", "b", "c", "a", "c"]
        res = []
        try:
            ops.apply(m, ["fit", dec, list(REW), None if cf else x])
            res.append(ops.call(m, "predict", None if cf else q))
            ops.apply(m, ["add_arm", "d"])
            ops.apply(m, ["remove_arm", "b"])
            ops.apply(m, ["partial_fit", ["d", "d", "d", "a"], [1, 0, 1, 0], None if cf else [x[3], x[0], x[2], x[1]]])
            if nn == "none":
                # 'e' is cold and exactly as far from 'a' as from 'c' and 'd' (identical feature vectors): which
                # trained arm it is initialised from must not depend on set / dict iteration order
                ops.apply(m, ["add_arm", "e"])
                ops.apply(m, ["warm_start", [[a, [0, 1]] for a in m.arms], 1.0])
                res.append(ops.norm(list(m.cold_arms)))
            res.append(ops.call(m, "predict_expectations", None if cf else q))
            res.append(ops.call(m, "predict", None if cf else q[:1]))
        except Exception as e:                                # noqa: BLE001
            res.append({"__exc__": type(e).__name__})
        out["%s/%s" % (ln, nn)] = hashlib.blake2b(json.dumps(res, sort_keys=True).encode(), digest_size=8).hexdigest()
    return out


def part_b(shard, acc):
    seed = shard["seed"]
    mine = str_script_digests(seed)
    mine2 = str_script_digests(seed)
    envv = dict(os.environ)
    if shard["hashseed"] == "random":
        envv.pop("PYTHONHASHSEED", None)
        envv["PYTHONHASHSEED"] = "random"
    else:
        envv["PYTHONHASHSEED"] = shard["hashseed"]
    r = subprocess.run([sys.executable, "-m", "mcx.props.c04", str(seed)], cwd=env.VERIF, env=envv,
                       capture_output=True, text=True)
    if r.returncode != 0:
        raise RuntimeError("child interpreter failed: " + r.stderr[-400:])
    theirs = json.loads(r.stdout.strip().splitlines()[-1])
    for combo in mine:
        acc.traces += 1
        acc.state((combo, shard["hashseed"]))
        acc.case((combo, shard["hashseed"]))
        acc.outcome(mine[combo])
        if mine[combo] != mine2[combo]:
            acc.violation("%s same process" % combo, {"combo": combo, "part": "b", "seed": seed, "hashseed": "same"},
                          "script digests differ between two runs in one process")
        if mine[combo] != theirs.get(combo):
            acc.violation("%s hashseed=%s" % (combo, shard["hashseed"]),
                          {"combo": combo, "part": "b", "seed": seed, "hashseed": shard["hashseed"]},
                          "outputs in a fresh interpreter with PYTHONHASHSEED=%s differ from this process" % shard["hashseed"])
    acc.sample({"part": "b", "hashseed": shard["hashseed"], "combinations": len(mine)})


def run_shard(shard):
    acc = report.Acc(ID, replay, shard)
    if shard["part"] == "a":
        part_a(shard, acc)
    else:
        part_b(shard, acc)
    return acc.result()


def replay(w):
    if w.get("part") == "b":
        seed = w["seed"]
        mine = str_script_digests(seed)
        if w["hashseed"] == "same":
            return [] if str_script_digests(seed)[w["combo"]] == mine[w["combo"]] else ["digests differ in one process"]
        envv = dict(os.environ, PYTHONHASHSEED=w["hashseed"])
        r = subprocess.run([sys.executable, "-m", "mcx.props.c04", str(seed)], cwd=env.VERIF, env=envv,
                           capture_output=True, text=True)
        theirs = json.loads(r.stdout.strip().splitlines()[-1])
        return [] if theirs.get(w["combo"]) == mine[w["combo"]] else ["fresh interpreter differs for %s" % w["combo"]]
    alone = run_merge(w["ln"], w["nn"], w["kind"], w["seed"], "SSSSS")
    try:
        got = run_merge(w["ln"], w["nn"], w["kind"], w["seed"], w["merge"])
    except Exception as e:                                    # noqa: BLE001
        got = {"__exc__": type(e).__name__}
    return [] if got == alone else ["merge %s: %r != alone %r" % (w["merge"], got, alone)]


if __name__ == "__main__":
    print(json.dumps(str_script_digests(int(sys.argv[1]), reverse=True)))
