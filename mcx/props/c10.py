"""C10 - prediction is read-only.

In every fitted state of the shared BFS: a deep copy answers a query program (1-2 calls, 1
or 3 rows), its generator positions are copied onto a never-queried twin, and then every
continuation up to the depth bound is applied to both; the outputs on the query set must be
identical."""
from .. import env  # noqa: F401
import contextlib
import copy

from .. import alphabet as A, canon, ops, report, sched, statespace as S

ID = "C10"


def meta(tier, seed):
    return {
        "rule": "a case = (combination, labels, n_jobs/backend, state, query program, continuation); non-trivial iff the "
                "continuation contains a training call or arm change, or the complete object graphs of queried copy and twin "
                "are bit-identical after alignment (which decides all futures); distinct by (state digest, program, continuation)",
        "oracle": "queried copy (streams synchronised onto the twin) and never-queried twin give identical predict / "
                  "predict_expectations on the query set after every continuation; same exception class if a call raises",
        "bounds": {"bfs_depth": 2 if tier == "quick" else 3, "continuation_depth": 2,
                   "programs": ["predict(1 row)", "predict_expectations(3 rows)", "predict(3 rows); predict_expectations(1 row)"],
                   "n_jobs": ["1", "2 backend=threading (shared object, task order)", "2 backend=None (isolated workers)"]},
        "assumptions": ["internal caches that no public call can observe (Thompson's last draw, empty LSH buckets) are "
                        "not compared: the oracle is on outputs"],
    }


def shards(tier, seed):
    out = []
    for ln, nn in A.combos(lints1=True):
        for labels in (("int",) if tier == "quick" else ("int", "str")):
            for par in (("seq", "thr") if tier == "quick" else ("seq", "thr", "proc")):
                if par != "seq" and nn == "none":
                    continue          # no joblib call on the prediction path of plain learning policies
                out.append({"ln": ln, "nn": nn, "labels": labels, "par": par,
                            "depth": 2 if tier == "quick" else 3, "cdepth": 2,
                            "seed": 9 + seed})
    return A.heavy_first(out)


def _cfg(shard):
    par = shard["par"]
    return A.config(shard["ln"], shard["nn"], arms=S.initial_arms(shard["labels"]), seed=shard["seed"],
                    n_jobs=1 if par == "seq" else 2, backend="threading" if par == "thr" else None)


def _model(par):
    return contextlib.nullcontext if par == "seq" else sched.model


def _programs(cf):
    q = [[0, 0], [1, 1], [2, 2]]
    progs = [[["predict", q[:1]]], [["predict_expectations", q]], [["predict", q], ["predict_expectations", q[1:2]]]]
    if cf:
        progs.append([["predict", None], ["predict_expectations", None]])
    return progs


def _apply_both(a, b, op, model):
    ra = rb = None
    with model():
        try:
            ops.apply(a, op)
        except Exception as e:                                # noqa: BLE001
            ra = type(e).__name__
        try:
            ops.apply(b, op, count=False)
        except Exception as e:                                # noqa: BLE001
            rb = type(e).__name__
    return ra, rb


def judge(mab, cfg, ln, prog, conts, model, acc=None, key=None):
    """-> list of messages.  conts: list of continuation op-lists."""
    cf = ops.is_context_free(cfg)
    subject = copy.deepcopy(mab)
    with model():
        for op in prog:
            try:
                ops.apply(subject, op, count=False)
                ops.COUNTERS["observations"] += 1
            except Exception as e:                            # noqa: BLE001
                return [([], "query %s raised %s" % (op[0], type(e).__name__))]
    twin = copy.deepcopy(mab)
    calls = ("predict", "predict_expectations")
    if not canon.sync_streams(subject, twin, strict=True):
        # The queries re-wired generator objects (not just advanced them).  That alone is not observable;
        # stream positions can then not be aligned, so only outputs that consume no randomness are compared.
        if acc is not None:
            acc.counters["states where queries changed generator identities (compared on deterministic outputs only)"] += 1
        if ln not in A.DETERMINISTIC_LPS:
            if acc is not None:
                acc.skip("generator identities changed by queries and policy is randomised: not comparable")
            return []
        calls = ("predict_expectations",)
    # context-free bandits accept contexts of any width (only the row count matters): observe with none, 3 and 1 columns
    qs = [None, [[0, 0, 0], [1, 1, 1]], [[5]]] if cf else [[[0, 0], [1, 1], [2, 2]], [[1, 1]]]
    msgs = []
    if len(calls) == 2 and canon.digest(subject) == canon.digest(twin):
        # complete object graphs identical (generator positions were aligned): every future coincides
        if acc is not None:
            acc.traces += 1
            acc.case((key, str(prog), "state-identical"))
            acc.counters["query programs leaving a bit-identical object graph"] += 1
            acc.outcome(["identical", str(prog)])
        return msgs
    if acc is not None:
        acc.counters["query programs after which the object graph differs (continuations compared)"] += 1
    for cont in conts:
        s2, t2 = copy.deepcopy(subject), copy.deepcopy(twin)
        bad = None
        for op in cont:
            ra, rb = _apply_both(s2, t2, op, model)
            if ra != rb:
                bad = "continuation %r: queried copy raised %r, twin raised %r" % ([o[0] for o in cont], ra, rb)
                break
            if ra is not None:
                break
        if bad is None:
            with model():
                oa, ob = ops.observe(s2, qs, calls), ops.observe(t2, qs, calls)
            if acc is not None:
                acc.outcome(oa)
            if not ops.same(oa, ob):
                bad = "after queries %r and continuation %r: queried copy %r != never-queried twin %r" % (
                    [o[0] for o in prog], [o[0] for o in cont], oa, ob)
        if acc is not None:
            acc.traces += 1
            acc.case((key, str(prog), str(cont)) if cont else None)
        if bad:
            msgs.append((cont, bad))
    return msgs


def run_shard(shard):
    ln, nn, labels, par = shard["ln"], shard["nn"], shard["labels"], shard["par"]
    cfg = _cfg(shard)
    cf = ops.is_context_free(cfg)
    model = _model(par)
    acc = report.Acc(ID, replay, shard)

    def visit(mab, hist, removed):
        if not S.fitted(mab) or S.knn_short(mab):
            return
        conts = list(S.continuations(mab, cf, labels, removed, shard["cdepth"]))
        key = "%s/%s/%s/%s/%s" % (ln, nn, labels, par, "|".join(map(str, hist)))
        for prog in _programs(cf):
            for cont, msg in judge(mab, cfg, ln, prog, conts, model, acc, key):
                acc.violation("%s/%s %s prog=%s cont=%s" % (ln, nn, par, "+".join(o[0] for o in prog),
                                                          "+".join(o[0] for o in cont)),
                              {"cfg": cfg, "ln": ln, "history": hist, "program": prog, "cont": cont, "par": par}, msg)
        if len(hist) == 2:
            acc.sample({"cfg": cfg, "history": hist, "programs": len(_programs(cf)), "continuations": len(conts)})

    S.explore(cfg, labels, shard["depth"], acc, visit, model=None if par == "seq" else model)
    return acc.result()


def replay(w):
    cfg = w["cfg"]
    model = _model(w["par"])
    mab = ops.build(cfg)
    for op in w["history"]:
        with model():
            ops.apply(mab, op)
    return [m for _c, m in judge(mab, cfg, w["ln"], w["program"], [w["cont"]], model)]
