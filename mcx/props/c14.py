"""C14 - a Thompson binarizer is applied to every reward exactly once.

Bounded exhaustive enumeration: Thompson Sampling alone and under every neighbourhood policy x
three binarizers (none idempotent on {0,1}) x every row sequence up to n rows over a 6-row
alphabet with rewards {0,1,2,5} x every composition into fit + partial_fit* x optional
add_arm(3, other binarizer) before the later chunks.  The twin has no binarizer and is fed the
rewards converted by the binarizer in force when each row was observed."""
from .. import env  # noqa: F401
import copy
import itertools

from .. import alphabet as A, canon, ops, report

ID = "C14"
ROWS = [(1, [0, 0], 0), (1, [1, 1], 2), (2, [0, 1], 5), (2, [1, 0], 1), (1, [0, 1], 5), (2, [1, 1], 0)]
BINS = ["bin_ge2", "bin_arm_threshold", "bin_le0"]
NEW_BIN = {"bin_ge2": "bin_ge5", "bin_arm_threshold": "bin_le0", "bin_le0": "bin_ge2"}
QUERIES = [[0, 0], [1, 1], [0, 1], [2, 2]]
NPS_ = ["none", "rad", "knn", "lsh", "clu", "mclu", "tree"]


def meta(tier, seed):
    return {
        "rule": "a case = (neighbourhood policy, binarizer, row sequence, composition, add_arm variant); non-trivial iff "
                "some reward is changed by the binarizer and changed again by a second application (r with b(b(r)) != "
                "b(r)), or a new binarizer is installed by add_arm; distinct by the full case",
        "oracle": "ThompsonSampling(binarizer) vs ThompsonSampling() fed [binarizer_in_force(arm, r)] per observation, same "
                  "seed and calls: complete canonical object graphs equal up to the binarizer fields, or predict and "
                  "predict_expectations on the query set identical (equal Beta parameters => equal draws); the number of "
                  "binarizer invocations during training equals the number of observations",
        "bounds": {"rows_max": 3 if tier == "quick" else 4, "row_alphabet": ROWS, "binarizers": BINS,
                   "neighbourhood_policies": NPS_, "variants": ["plain", "add_arm(3, new binarizer) after the first call",
                                "a zero-row partial_fit after the first call (up to 2 rows)",
                                "no binarizer at construction, binary first call, add_arm(3, binarizer), further calls",
                                "the same with add_arm(3, binarizer) as the last call before the queries (up to 2 rows)"],
                   "n_jobs": "1; additionally 2 (joblib model, default schedule) with up to 3 rows for %s" % (
                       ["none", "rad"] if tier == "quick" else NPS_)},
        "assumptions": [],
    }


def shards(tier, seed):
    out = []
    for nn in NPS_:
        for b in BINS:
            for first in range(len(ROWS)):
                out.append({"nn": nn, "bin": b, "nmax": 3 if tier == "quick" else 4, "first": first, "seed": 121 + seed})
    # the same histories with the work partitioned over two jobs (joblib model, default schedule): every reward must
    # still meet the binarizer once, with the decision of its own row
    for nn in (["none", "rad"] if tier == "quick" else NPS_):
        for b in BINS:
            for first in range(len(ROWS)):
                out.append({"nn": nn, "bin": b, "nmax": 3, "first": first, "seed": 121 + seed, "n_jobs": 2})
    return A.heavy_first(out)


def build_ops(seq, comp, b, variant):
    """-> (ops for the subject, ops for the twin, nontrivial flag)"""
    fn = ops.BINARIZERS[b]
    sub, twin = [], []
    cur = fn
    nontrivial = variant in ("add", "empty", "install", "install_end")
    rows = list(seq)
    if variant == "add" and len(comp) >= 2:
        rows[-1] = (3, rows[-1][1], rows[-1][2])
    if variant == "install_end":
        cur = None
    if variant == "install":
        # the bandit starts WITHOUT a binarizer and observes binary rewards; add_arm(3, b) installs b for the
        # subsequent observations only: the rewards stored so far are what they are
        rows[-1] = (3, rows[-1][1], rows[-1][2])
        cur = None
    for i, (a, e) in enumerate(comp):
        chunk = rows[a:e]
        kind = "fit" if i == 0 else "partial_fit"
        d = [r[0] for r in chunk]
        x = [list(r[1]) for r in chunk]
        raw = [r[2] for r in chunk]
        if cur is None:
            raw = [1 if rv >= 1 else 0 for rv in raw]
            conv = list(raw)
            sub.append([kind, d, raw, x])
            twin.append([kind, d, conv, x])
            if (i == 0 and variant == "install") or (i == len(comp) - 1 and variant == "install_end"):
                sub.append(["add_arm", 3, b])       # install_end: the bandit is queried right after the installation
                twin.append(["add_arm", 3])
                cur = fn
            continue
        conv = [int(bool(cur(arm, rv))) for arm, rv in zip(d, raw)]
        for arm, rv, cv in zip(d, raw, conv):
            if int(bool(cur(arm, cv))) != cv:
                nontrivial = True
        sub.append([kind, d, raw, x])
        twin.append([kind, d, conv, x])
        if i == 0 and variant == "add":
            sub.append(["add_arm", 3, NEW_BIN[b]])
            twin.append(["add_arm", 3])
            cur = ops.BINARIZERS[NEW_BIN[b]]
        if i == 0 and variant == "empty":
            # a zero-row batch (numpy arrays; the library takes it as a no-op where it takes it at all): no reward
            # is observed, so the binarizer has nothing to convert - and nothing to convert again
            for lst in (sub, twin):
                lst.append(["partial_fit", [], [], [], {"d": "int64", "r": "float64", "x0": 2}])
    return sub, twin, nontrivial


def run_ops(cfg, oplist):
    cf = ops.is_context_free(cfg)
    m = ops.build(cfg)
    for op in oplist:
        if cf and op[0] in ("fit", "partial_fit"):
            op = [op[0], op[1], op[2], None] + list(op[4:])
        ops.apply(m, op)
    return m


def judge(nn, b, seed, seq, comp, variant, n_jobs=1):
    if n_jobs > 1:
        from .. import sched
        with sched.model():
            return _judge(nn, b, seed, seq, comp, variant, n_jobs)
    return _judge(nn, b, seed, seq, comp, variant, n_jobs)


def _judge(nn, b, seed, seq, comp, variant, n_jobs):
    """-> (messages, nontrivial) | None if the sequence is not a valid training history for this policy"""
    cfg_s = A.config(["ThompsonSampling", {} if variant.startswith("install") else {"binarizer": b}], nn, seed=seed, n_jobs=n_jobs)
    cfg_t = A.config(["ThompsonSampling", {}], nn, seed=seed, n_jobs=n_jobs)
    sub_ops, twin_ops, nontrivial = build_ops(seq, comp, b, variant)
    try:
        t = run_ops(cfg_t, twin_ops)
    except Exception:                                         # noqa: BLE001
        return None
    ops.BIN_CALLS[0] = 0
    try:
        s = run_ops(cfg_s, sub_ops)
    except Exception as e:                                    # noqa: BLE001
        return ["with a binarizer the history raises %s: %s; the twin on converted rewards accepts it" % (
            type(e).__name__, str(e)[:150])], nontrivial
    first = next((i for i, o in enumerate(sub_ops) if o[0] == "add_arm"), 0) if variant.startswith("install") else 0
    calls, rows = ops.BIN_CALLS[0], sum(len(o[1]) for o in sub_ops[first:] if o[0] in ("fit", "partial_fit"))
    if calls != rows:
        # a binarizer need not be a pure function (adaptive thresholds, budgets): the number of invocations is observable
        return ["training on %d observations invoked the binarizer %d times" % (rows, calls)], nontrivial
    cf = ops.is_context_free(cfg_s)
    qs = [None] if cf else [QUERIES, QUERIES[1:2]]
    if nn == "knn" and len(seq) < 2:
        return None
    oa, ob = ops.observe(s, qs), ops.observe(t, qs)
    if not ops.same(oa, ob):
        return ["binarizer %s: %r; twin fed converted rewards: %r" % (b, oa, ob)], nontrivial
    return [], nontrivial


def run_shard(shard):
    nn, b, seed = shard["nn"], shard["bin"], shard["seed"]
    acc = report.Acc(ID, replay, shard)
    nj = shard.get("n_jobs", 1)
    cfg_s = A.config(["ThompsonSampling", {"binarizer": b}], nn, seed=seed, n_jobs=nj)
    for n in range(1, shard["nmax"] + 1):
        for seq in itertools.product(ROWS, repeat=n):
            if seq[0] != ROWS[shard["first"]]:
                continue
            for comp in A.compositions(n):
                for variant in ("plain", "add", "empty", "install", "install_end"):
                    if variant == "install_end" and n > 2:
                        continue
                    if variant == "empty" and (n > 2 or nn in ("lsh",)):
                        continue        # LSHNearest rejects a zero-row batch (division by zero), with or without binarizer
                    if variant == "install" and len(comp) != 2:
                        continue
                    if nj > 1 and variant not in ("plain", "add"):
                        continue        # the other variants are about call order, not about partitioning
                    res = judge(nn, b, seed, list(seq), comp, variant, nj)
                    if res is None:
                        acc.skip("not a valid training history for this policy (too few rows for k / clusters)")
                        continue
                    msgs, nontrivial = res
                    acc.traces += 1
                    key = (nn, b, str(seq), str(comp), variant, nj)
                    acc.state(key)
                    acc.case(key if nontrivial else None)
                    acc.outcome([nn, b, variant, len(msgs)])
                    if msgs:
                        acc.violation("%s %s %s" % (nn, b, variant),
                                      {"cfg": cfg_s, "nn": nn, "bin": b, "seed": seed, "seq": list(seq), "comp": comp,
                                       "variant": variant, "n_jobs": nj,
                                       "history": build_ops(list(seq), comp, b, variant)[0]}, msgs[0])
                    elif n == 2 and variant == "add" and len(comp) == 2 and len(acc.samples) < 2:
                        acc.sample({"cfg": cfg_s, "history": build_ops(list(seq), comp, b, variant)[0], "queries": QUERIES})
    return acc.result()


def replay(w):
    res = judge(w["nn"], w["bin"], w["seed"], [tuple(r) for r in w["seq"]], [tuple(c) for c in w["comp"]], w["variant"],
                w.get("n_jobs", 1))
    return [] if res is None else res[0]
