"""C11 - LSHNearest neighbourhoods are the sign-random-projection collisions.

Bounded exhaustive enumeration: (n_dimensions, n_tables) x seeds x feature count x every
n-tuple over {-1,0,1}^d as stored contexts x arm assignments x every composition into fit +
partial_fit* x n_jobs for hashing; queries: every stored row, 2x / 4x / 0.5x / 2^600x / 2^-600x every stored row,
every grid point and the zero row.  The oracle reads the hyperplanes the bandit drew at fit
time, computes every projection exactly (fractions), forms the collision set over tables on the
harness's own copy of the history and trains the learning policy on exactly that set."""
from .. import env  # noqa: F401
import copy
import itertools
import math
from fractions import Fraction

import numpy as np

from .. import alphabet as A, ops, report, sched
from .c03 import reference_expectations

ID = "C11"
SETTINGS = [(1, 1), (2, 2), (3, 2)]          # (n_dimensions, n_tables)
LPS = ["eg0", "ucb"]


def meta(tier, seed):
    return {
        "rule": "a case = (LSH setting, seed, d, stored tuple, assignment, composition, n_jobs, query); non-trivial iff "
                "the collision set is a non-empty proper subset of the stored rows, or the query is a scaled stored row, "
                "or some projection is exactly zero, or the history has >= 2 training calls; distinct by the full case",
        "oracle": "planes from mab._imp.table_to_plane; sign of each exact rational projection; neighbourhood = rows "
                  "sharing the query's sign pattern in at least one table (harness's copy of the history, accumulated "
                  "indices); expectations = library's learning policy fit on exactly that set, NaN for all arms if empty; "
                  "positive multiples of a query give identical expectations and a stored row is in its own neighbourhood",
        "bounds": {"settings": SETTINGS, "many_planes": "LSHNearest(20 planes, 1 table) on pairs of 48 unit directions (+3 neighbours each)", "seeds": 3 if tier == "thorough" else 1,
                   "stored": {"quick": "d=1 n<=4; d=2 n<=3 (n=3: 3 assignments); d=3 n<=2",
                              "thorough": "d=1 n<=5; d=2 n<=3 with all arm assignments; d=3 n<=2; three seeds"}[tier],
                   "grid": "{-1,0,1}^d incl. the zero vector", "n_jobs": [1, 2], "policies": LPS,
                   "earlier_life": "half of the histories are preceded by fit(other rows) + a query on the same bandit"},
        "assumptions": ["a projection whose exact value is non-zero but below 1e-12*|x||p| is a don't-care (skipped, counted)",
                        "n_jobs=2 runs through the joblib model (isolated hashing tasks, shared-memory inserts)"],
    }


def shards(tier, seed):
    out = []
    seeds = [seed * 7 + 3] + ([seed * 7 + 4, seed * 7 + 5] if tier == "thorough" else [])
    plan = {"quick": [(1, 4), (2, 3), (3, 2)], "thorough": [(1, 5), (2, 3), (3, 2)]}[tier]
    for (nd, nt) in SETTINGS:
        for sd in seeds:
            for d, nmax in plan:
                for n in range(1, nmax + 1):
                    for ln in LPS:
                        if ln == "ucb" and (n < nmax or d == 3):
                            continue
                        firsts = range(3 ** d) if (n >= 2 and (3 ** d) ** n >= 500) else [None]
                        for first in firsts:
                            out.append({"nd": nd, "nt": nt, "bseed": sd, "d": d, "n": n, "ln": ln, "tier": tier,
                                        "first": first})
    out.sort(key=lambda s: -((3 ** s["d"]) ** (s["n"] - (s["first"] is not None))))
    # many hyperplanes (hash values up to 2^20): neighbouring directions differ in a single, possibly low-order, bit
    for sd in seeds:
        for first in range(0, FINE_ANGLES, 4):
            out.append({"kind": "fine", "nd": 20, "nt": 1, "bseed": sd, "first": first, "tier": tier})
    return out


_SIGN_CACHE = {}


def sign_pattern(planes, x, pkey=None):
    """-> (tuple of hash ints per table, has_zero, ambiguous); memoised per (planes, x)"""
    if pkey is None:
        return _sign_pattern(planes, x)
    key = (pkey, tuple(x))
    if key not in _SIGN_CACHE:
        if len(_SIGN_CACHE) > 100000:
            _SIGN_CACHE.clear()
        _SIGN_CACHE[key] = _sign_pattern(planes, x)
    return _SIGN_CACHE[key]


def _sign_pattern(planes, x):
    hashes, has_zero, amb = [], False, False
    for k in sorted(planes):
        p = planes[k]
        h = 0
        for j in range(p.shape[1]):
            v = sum(Fraction(int(x[i])) * Fraction(float(p[i, j])) if float(x[i]) == int(x[i])
                    else Fraction(float(x[i])) * Fraction(float(p[i, j])) for i in range(p.shape[0]))
            if v == 0:
                has_zero = True
            else:
                scale = math.hypot(*[float(t) for t in x]) * float(np.linalg.norm(p[:, j]))
                if abs(float(v)) < 1e-12 * max(scale, 1e-300):
                    amb = True
            if v > 0:
                h += 2 ** j
        hashes.append(h)
    return tuple(hashes), has_zero, amb


def assignments(n, tier):
    if n <= 2 or (tier == "thorough" and n == 3):
        return [list(p) for p in itertools.product([1, 2], repeat=n)]
    return [([1, 2] * n)[:n], ([1, 1, 2, 2] * n)[:n], [2] * n]


MULTIPLES = (1, 2, 4, 0.5, 2.0 ** 600, 2.0 ** -600)      # the direction decides, whatever the magnitude


def queries_for(pts, grid):
    qs, kinds = [], []
    for p in pts:
        for c in MULTIPLES:
            qs.append([c * v for v in p])
            kinds.append("stored*%s" % c)
    for g in grid:
        qs.append(list(g))
        kinds.append("grid")
    return qs, kinds


_REM_CACHE = {}


def reference_removed(ln, rows, d):
    """The library's learning policy with arm 2 removed, fit (at implementor level, as the neighbourhood policy does)
    on rows that still contain observations of arm 2."""
    key = (ln, repr(rows))
    if key not in _REM_CACHE:
        if len(_REM_CACHE) > 100000:
            _REM_CACHE.clear()
        cfg = A.config(ln, "none", seed=0)
        ref = ops.build(cfg)
        ref.remove_arm(2)
        cf = ops.is_context_free(cfg)
        ref._imp.fit(np.asarray([r[0] for r in rows]), np.asarray([r[2] for r in rows], dtype=float),
                     None if cf else np.asarray([r[1] for r in rows], dtype=float))
        _REM_CACHE[key] = ops.expectations_dict(ops.norm(ref._imp.predict_expectations(np.asarray([[0.0] * d]))))
    return _REM_CACHE[key]


def judge(cfg, ln, hist_rows, comp, qs, kinds, acc=None, prefit=False, removed=False):
    history = []
    if prefit:
        # an earlier life of the same bandit: fit on other rows and answer a query, then the real history starts
        # with fit again (hyperplanes are redrawn; nothing derived from the old ones may survive)
        d = len(hist_rows[0][1])
        history.append(["fit", [1, 2], [1.0, 0.0], [[1] * d, [-1] + [1] * (d - 1)]])
        history.append(["predict_expectations", [[1] * d, [0] * d]])
    for i, (a, b) in enumerate(comp):
        rows = hist_rows[a:b]
        history.append(["fit" if i == 0 else "partial_fit", [r[0] for r in rows], [r[2] for r in rows],
                        [list(r[1]) for r in rows]])
    if removed:
        # arm 2 leaves the arm list; its stored observations keep colliding with the queries they collided with
        history.append(["remove_arm", 2])
    with sched.model():
        mab = ops.build(cfg)
        for op in history:
            ops.apply(mab, op)
        out = ops.call(copy.deepcopy(mab), "predict_expectations", qs)
    if ops.is_exc(out):
        return ["predict_expectations raised %s" % out["__exc__"]], history
    planes = mab._imp.table_to_plane
    pkey = tuple((k, planes[k].shape, planes[k].tobytes()) for k in sorted(planes))
    stored = [sign_pattern(planes, r[1], pkey) for r in hist_rows]
    case_base = report.h64(str(cfg) + str(history)) if acc is not None else 0
    arms = [a for a in cfg["arms"] if not (removed and a == 2)]
    msgs = []
    base = {}
    for qi, (q, kind) in enumerate(zip(qs, kinds)):
        pat, has_zero, amb = sign_pattern(planes, q, pkey)
        if amb or any(s[2] for s in stored):
            if acc is not None:
                acc.skip("projection within 1e-12 of a hyperplane (don't care)")
            continue
        nb = [i for i, s in enumerate(stored) if any(s[0][t] == pat[t] for t in range(len(pat)))]
        e = ops.expectations_dict(out[qi])
        nontrivial = (0 < len(nb) < len(hist_rows)) or kind != "grid" and not kind.endswith("*1") or has_zero or len(comp) > 1
        if acc is not None:
            acc.case((case_base * 64 + qi) if nontrivial else None)
        if list(e) != arms:
            msgs.append("query %r: keys %r != arms %r" % (q, list(e), arms))
            break
        if not nb:
            if not all(v == "nan" for v in e.values()):
                msgs.append("query %r collides with no stored row but expectations are %r" % (q, e))
                break
            continue
        if removed:
            want = reference_removed(ln, [hist_rows[i] for i in nb], len(q))
        else:
            want = reference_expectations(ln, [hist_rows[i] for i in nb], [0.0] * len(q), None)
        if not all(ops.same(e[a], want[a]) for a in arms):
            msgs.append("query %r (%s): expectations %r; the policy trained on the colliding rows %r gives %r "
                        "(stored patterns %r, query pattern %r)" % (q, kind, e, nb, want, [s[0] for s in stored], pat))
            break
        if kind.startswith("stored*"):
            src = kinds[:qi + 1].count("stored*1") - 1 if kind == "stored*1" else None
            key = qi // len(MULTIPLES)
            if kind == "stored*1":
                base[key] = e
                if key not in nb:
                    msgs.append("stored row %d %r is not in its own neighbourhood %r" % (key, q, nb))
                    break
            elif base.get(key) is not None and e != base[key]:
                msgs.append("query %r = %s of stored row %d gives %r, the row itself gives %r" % (q, kind, key, e, base[key]))
                break
    if acc is not None:
        acc.outcome(out)
    return msgs, history


FINE_ANGLES = 48


def fine_grid():
    import math
    return [[math.cos(2 * math.pi * i / FINE_ANGLES), math.sin(2 * math.pi * i / FINE_ANGLES)] for i in range(FINE_ANGLES)]


def run_fine(shard):
    """Pairs of stored directions from a fine angular grid under LSHNearest(20 planes, 1 table)."""
    acc = report.Acc(ID, replay, shard)
    grid = fine_grid()
    ln = "eg0"
    for i in range(shard["first"], min(shard["first"] + 4, FINE_ANGLES)):
        for j in range(FINE_ANGLES):
            pts = [grid[i], grid[j]]
            for k in (1, 2, 3):                  # plus the next few directions after j: a small cluster of near rows
                pts.append(grid[(j + k) % FINE_ANGLES])
            hist_rows = [(1 + t % 2, list(p), float(2 ** t)) for t, p in enumerate(pts)]
            qs = [list(p) for p in pts] + [[2.5 * v for v in pts[0]], [0.5 * v for v in pts[1]]]
            kinds = ["grid"] * len(qs)
            for comp in ([(0, 5)], [(0, 2), (2, 5)]):
                cfg = {"arms": [1, 2], "lp": A.LPS[ln], "np": ["LSHNearest", {"n_dimensions": shard["nd"], "n_tables": shard["nt"]}],
                       "seed": shard["bseed"], "n_jobs": 1, "backend": None}
                msgs, history = judge(cfg, ln, hist_rows, comp, qs, kinds, acc)
                acc.traces += 1
                acc.state(("fine", shard["bseed"], i, j, len(comp)))
                if msgs:
                    acc.violation("fine nd=%d comp=%d" % (shard["nd"], len(comp)),
                                  {"cfg": cfg, "ln": ln, "rows": hist_rows, "comp": comp, "queries": qs, "kinds": kinds}, msgs[0])
    acc.sample({"kind": "fine", "n_dimensions": shard["nd"], "stored": "pairs of %d unit directions plus 3 neighbours" % FINE_ANGLES})
    return acc.result()


def run_shard(shard):
    if shard.get("kind") == "fine":
        return run_fine(shard)
    nd, nt, d, n, ln, tier = shard["nd"], shard["nt"], shard["d"], shard["n"], shard["ln"], shard["tier"]
    grid = A.grid([-1, 0, 1], d)
    acc = report.Acc(ID, replay, shard)
    comps = A.compositions(n)
    for pts in itertools.product(grid, repeat=n):
        if shard["first"] is not None and list(pts[0]) != grid[shard["first"]]:
            continue
        qs, kinds = queries_for(pts, grid)
        for asg in assignments(n, tier):
            hist_rows = [(asg[i], list(pts[i]), float(2 ** i)) for i in range(n)]
            for ci, comp in enumerate(comps):
                n_jobs = 1 + (ci + sum(map(abs, pts[0]))) % 2          # both values meet every composition
                cfg = {"arms": [1, 2], "lp": A.LPS[ln], "np": ["LSHNearest", {"n_dimensions": nd, "n_tables": nt}],
                       "seed": shard["bseed"], "n_jobs": n_jobs, "backend": None}
                prefit = (ci + len(pts)) % 2 == 1 and asg == assignments(n, tier)[0]
                removed = (ci + sum(map(abs, pts[-1]))) % 3 == 2
                msgs, history = judge(cfg, ln, hist_rows, comp, qs, kinds, acc, prefit, removed)
                acc.traces += 1
                acc.state((nd, nt, shard["bseed"], ln, str(hist_rows), ci))
                if msgs:
                    acc.violation("%s nd=%d nt=%d d=%d n=%d comp=%d jobs=%d" % (ln, nd, nt, d, n, len(comp), n_jobs),
                                  {"cfg": cfg, "ln": ln, "rows": hist_rows, "comp": comp, "queries": qs, "kinds": kinds,
                                   "prefit": prefit, "removed": removed},
                                  msgs[0])
                elif n >= 2 and ci == 1 and len(acc.samples) < 2:
                    acc.sample({"cfg": cfg, "history": history, "queries": qs[:6]})
    return acc.result()


def replay(w):
    rows = [(r[0], r[1], r[2]) for r in w["rows"]]
    msgs, _ = judge(w["cfg"], w["ln"], rows, [tuple(c) for c in w["comp"]], w["queries"], w["kinds"], prefit=w.get("prefit", False),
                    removed=w.get("removed", False))
    return msgs
