"""C02 - linear policies are exact per-arm ridge regressions with the stated bonus.

Bounded exhaustive enumeration: policy x lambda x scale x feature count x every row sequence of
n <= N rows over a small row alphabet x every composition of the sequence into fit +
partial_fit* x arm-addition variants x query batches of 1..3 rows; the implementation's
predict_expectations is compared with an exact-rational ridge regression (Gaussian
elimination over fractions.Fraction)."""
from .. import env  # noqa: F401
import copy
import itertools
import math
from fractions import Fraction

from .. import alphabet as A, ops, report

ID = "C02"

POLICIES = [
    ("lg", "LinGreedy", {"epsilon": 0}),
    ("lucb0", "LinUCB", {"alpha": 0}),
    ("lucb05", "LinUCB", {"alpha": 0.5}),
    ("lucb2", "LinUCB", {"alpha": 2}),
    ("lts", "LinTS", {"alpha": 1e-9}),
]
LAMBDAS = [0.5, 1, 2]

# row alphabets (arm, x, y) per feature count; queries: first row non-zero (a zero query hides every bonus)
ROWS = {
    1: [(1, [1], 2), (1, [-2.5], -1), (1, [0], 0.5), (2, [1], 0.5), (2, [-1], 2), (2, [2], 2)],
    2: [(1, [1, 0], 2), (1, [0.5, -1.5], -1), (1, [1, 1], 0.5), (2, [1, 1], 2), (2, [2, 1], -1), (2, [0, 1], 0.5)],
    3: [(1, [1, 0, 0], 2), (1, [0, 1.5, -1], -1), (1, [1, 1, 0], 0.5), (2, [1, 1, 1], 2), (2, [2, 0, 1], -1),
        (2, [0, 0, 1], 0.5)],
}
QUERIES = {
    1: [[1], [2], [0]],
    2: [[1, 0], [1, 1], [0, 0]],
    3: [[1, 0, 0], [1, 1, 1], [0, 2, 1]],
}


def meta(tier, seed):
    return {
        "rule": "a case = (policy, lambda, scale, d, row sequence, composition, arm-addition variant, query batch size); "
                "non-trivial iff some arm has no observation at query time, or the history has >= 2 training calls, or "
                "d == 1, or scale=True (the corners no pinned test reaches); distinct by the full case description",
        "oracle": "exact rationals: A = lambda*I + sum x x^T, b = sum x*y, beta = A^-1 b by fraction Gaussian elimination; "
                  "LinGreedy x.beta; LinUCB x.beta + alpha*sqrt(x^T A^-1 x); LinTS(alpha=1e-9) x.beta within 1e-6; "
                  "unobserved arm beta = 0, A^-1 = I/lambda; scale=True standardises per arm (population mean/std, "
                  "zero variance -> 1), an arm without data sees the raw query",
        "bounds": {"rows_max": 3 if tier == "quick" else 4, "row_alphabet": 4 if tier == "quick" else 5, "d": [1, 2, 3], "lambdas": LAMBDAS,
                   "policies": [p[0] for p in POLICIES], "query_rows": [1, 2, 3],
                   "extreme": "features of magnitude 1e5 next to 0/1 flags; l2_lambda = 1e-6 with 2 rows in 3 features (tolerance 1e-4)",
                   "small_units": "histories whose first feature varies by ~3e-4 around 0.02 (all orders of 3-5 of 5 rows, single fit)",
                   "long_history": "one 703-row single-fit history per (policy, lambda, scale, d)",
                   "variants": ["no arm change", "add_arm(3) at the end", "add_arm(3) after the first call, last row relabelled to arm 3"]},
        "assumptions": ["scale=True only with a single fit (running standardisation is excluded by the statement)",
                        "tolerance 1e-9 relative (1e-6 where a square root of a rational and standardisation are involved)"],
    }


def shards(tier, seed):
    out = []
    nmax = 3 if tier == "quick" else 4
    for pname, cls, kw in POLICIES:
        for lam in LAMBDAS:
            for scale in (False, True):
                for d in (1, 2, 3):
                    out.append({"p": pname, "cls": cls, "kw": kw, "lam": lam, "scale": scale, "d": d, "nmax": nmax,
                                "seed": 31 + seed})
    out.sort(key=lambda s: (s["scale"], -s["d"]))
    return out


# ---------------------------------------------------------------- exact ridge
def solve(Amat, bvec):
    """Gauss-Jordan over Fractions: returns (A^-1, A^-1 b)."""
    n = len(Amat)
    M = [[Fraction(v) for v in row] + [Fraction(int(i == j)) for j in range(n)] for i, row in enumerate(Amat)]
    for c in range(n):
        piv = next(r for r in range(c, n) if M[r][c] != 0)
        M[c], M[piv] = M[piv], M[c]
        pv = M[c][c]
        M[c] = [v / pv for v in M[c]]
        for r in range(n):
            if r != c and M[r][c] != 0:
                f = M[r][c]
                M[r] = [a - f * b for a, b in zip(M[r], M[c])]
    inv = [row[n:] for row in M]
    beta = [sum(inv[i][j] * Fraction(bvec[j]) for j in range(n)) for i in range(n)]
    return inv, beta


def ridge_expectation(cls, alpha, lam, scale, rows, q):
    """rows: list of (x, y) for one arm; q: one query row -> expected expectation (float)."""
    d = len(q)
    lamf = Fraction(lam)
    if not rows:
        inv = [[(Fraction(1) / lamf) if i == j else Fraction(0) for j in range(d)] for i in range(d)]
        beta = [Fraction(0)] * d
        xq = [Fraction(v) for v in q]
    else:
        xs = [[Fraction(v) for v in x] for x, _y in rows]
        if scale:
            n = len(xs)
            mean = [sum(x[j] for x in xs) / n for j in range(d)]
            var = [sum((x[j] - mean[j]) ** 2 for x in xs) / n for j in range(d)]
            std = [Fraction(math.sqrt(float(v))) if math.sqrt(float(v)) > 1e-6 else Fraction(1) for v in var]
            xs = [[(x[j] - mean[j]) / std[j] for j in range(d)] for x in xs]
            xq = [(Fraction(q[j]) - mean[j]) / std[j] for j in range(d)]
        else:
            xq = [Fraction(v) for v in q]
        Amat = [[(lamf if i == j else Fraction(0)) + sum(x[i] * x[j] for x in xs) for j in range(d)] for i in range(d)]
        bvec = [sum(x[i] * Fraction(y) for x, (_x, y) in zip(xs, rows)) for i in range(d)]
        inv, beta = solve(Amat, bvec)
    val = float(sum(a * b for a, b in zip(xq, beta)))
    if cls == "LinUCB":
        quad = sum(xq[i] * inv[i][j] * xq[j] for i in range(d) for j in range(d))
        val += alpha * math.sqrt(float(quad))
    return val


# ---------------------------------------------------------------- cases
def histories(seq, scale):
    """[(ops, arm3 variant label)] for one row sequence (list of (arm, x, y))."""
    out = []
    n = len(seq)
    comps = A.compositions(n) if not scale else [[(0, n)]]
    for comp in comps:
        def batch(kind, rows):
            return [kind, [r[0] for r in rows], [r[2] for r in rows], [list(r[1]) for r in rows]]
        base = [batch("fit" if i == 0 else "partial_fit", seq[a:b]) for i, (a, b) in enumerate(comp)]
        out.append((base, "plain"))
        out.append((base + [["add_arm", 3]], "add_end"))
        if len(comp) >= 2:
            seq2 = list(seq[:-1]) + [(3, seq[-1][1], seq[-1][2])]
            h = [batch("fit" if i == 0 else "partial_fit", seq2[a:b]) for i, (a, b) in enumerate(comp)]
            h.insert(1, ["add_arm", 3])
            out.append((h, "add_mid_trained"))
    return out


def per_arm_rows(history, arms0=(1, 2)):
    arms, rows = list(arms0), {a: [] for a in arms0}
    for op in history:
        if op[0] == "add_arm":
            arms.append(op[1])
            rows[op[1]] = []
        else:
            for a, y, x in zip(op[1], op[2], op[3]):
                rows[a].append((x, y))
    return arms, rows


def build(cfg, history):
    mab = ops.build(cfg)
    for op in history:
        ops.apply(mab, op)
    return mab


def judge(mab, history, q, cls, alpha, lam, scale, tol=None, arms0=(1, 2)):
    out = ops.call(copy.deepcopy(mab), "predict_expectations", q)
    arms, rows = per_arm_rows(history, arms0)
    if ops.is_exc(out):
        return ["predict_expectations raised %s" % out["__exc__"]], None
    obs = [out] if len(q) == 1 else out
    if tol is None:
        tol = 1e-6 if (cls == "LinTS" or scale) else 1e-9
    msgs = []
    for i, (row, o) in enumerate(zip(q, obs)):
        e = ops.expectations_dict(o)
        if list(e) != arms:
            msgs.append("row %d: keys %r != arms %r" % (i, list(e), arms))
            break
        for a in arms:
            want = ridge_expectation(cls, alpha, lam, scale, rows[a], row)
            got = e[a]
            if not isinstance(got, (int, float)) or abs(got - want) > tol * max(1.0, abs(want)):
                msgs.append("query %r (row %d of %d), arm %r with %d observation(s): got %r, exact ridge gives %r" % (
                    row, i, len(q), a, len(rows[a]), got, want))
                break
        if msgs:
            break
    return msgs, out


def long_history(d, n=700):
    """One long deterministic single-fit history (size thresholds in the implementation - block-wise processing,
    chunking - are invisible to 4-row histories): arm 1 gets n rows with drifting contexts, arm 2 gets 3."""
    rows = []
    for i in range(n):
        x = [((i * 7) % 11) / 2.0 + i / 100.0] + [((i * 3 + j) % 5) - 2.0 for j in range(1, d)]
        rows.append((1, x, ((i * 5) % 7) / 2.0 - 1.0))
    for i in range(3):
        rows.append((2, [float(i + 1)] + [float(i % 2)] * (d - 1), float(i)))
    return [["fit", [r[0] for r in rows], [r[2] for r in rows], [list(r[1]) for r in rows]]]


def run_shard(shard):
    cls, kw, lam, scale, d = shard["cls"], shard["kw"], shard["lam"], shard["scale"], shard["d"]
    lp = [cls, dict(kw, l2_lambda=lam, scale=scale)]
    cfg = {"arms": [1, 2], "lp": lp, "np": None, "seed": shard["seed"], "n_jobs": 1, "backend": None}
    alpha = kw.get("alpha", 0)
    acc = report.Acc(ID, replay, shard)
    rows = ROWS[d][:5] if shard["nmax"] > 3 else [ROWS[d][i] for i in (0, 1, 3, 4)]
    for n in range(1, shard["nmax"] + 1):
        for seq in itertools.product(rows, repeat=n):
            for hist, variant in histories(list(seq), scale):
                arms, per = per_arm_rows(hist)
                mab = build(cfg, hist)
                for m in (1, 2, 3):
                    q = QUERIES[d][:m]
                    msgs, out = judge(mab, hist, q, cls, alpha, lam, scale)
                    acc.traces += 1
                    unobserved = any(not per[a] for a in arms)
                    ncalls = sum(1 for o in hist if o[0] != "add_arm")
                    nontrivial = unobserved or ncalls >= 2 or d == 1 or scale
                    acc.case((shard["p"], lam, scale, d, str(hist), m) if nontrivial else None)
                    acc.state((shard["p"], lam, scale, d, str(hist)))
                    if out is not None:
                        acc.outcome(out)
                    if msgs:
                        sig = "%s lam=%s scale=%s d=%d m=%d %s %s" % (
                            shard["p"], lam, scale, d, m, variant, "unobs" if unobserved else "allobs")
                        acc.violation(sig, {"cfg": cfg, "history": hist, "query": q}, msgs[0])
                if n == 2 and variant == "add_mid_trained":
                    acc.sample({"cfg": cfg, "history": hist, "queries": QUERIES[d]})
    # a feature recorded in small units (standard deviation between 1e-6 and 1e-3): it must be standardised like any
    # other feature; only a (numerically) constant feature keeps scale 1
    small = [(1, [0.02] + [1.0] * (d - 1), 2), (1, [0.0203] + [0.0] * (d - 1), -1), (1, [0.0197] + [2.0] * (d - 1), 0.5),
             (2, [0.0201] + [1.0] * (d - 1), 2), (1, [0.0206] + [1.0] * (d - 1), 1)]
    for n in (3, 4, 5):
        for seq in itertools.permutations(small, n):
            if n == 5 and seq[0] != small[0]:
                continue
            hist = [["fit", [r[0] for r in seq], [r[2] for r in seq], [list(r[1]) for r in seq]]]
            mab = build(cfg, hist)
            q = [[0.0202] + [1.0] * (d - 1), [0.0199] + [0.0] * (d - 1)]
            msgs, out = judge(mab, hist, q, cls, alpha, lam, scale)
            acc.traces += 1
            acc.case((shard["p"], lam, scale, d, "small-units", str(seq)))
            acc.state((shard["p"], lam, scale, d, "small-units", str(seq)))
            if msgs:
                acc.violation("%s lam=%s scale=%s d=%d m=2 small-units allobs" % (shard["p"], lam, scale, d),
                              {"cfg": cfg, "history": hist, "query": q}, msgs[0])
    # extreme but valid settings (relative tolerance 1e-4: the condition numbers, up to ~1e11, are ones float64 inverts
    # to better than that): features of very different magnitude; a tiny penalty with fewer rows than features
    if not scale and d >= 2:
        wide = [(1, [1e5 * (1 + (i % 4)), float(i % 2)] + [1.0] * (d - 2), float((i * 3) % 5)) for i in range(8)] + \
               [(2, [2e5, 1.0] + [0.0] * (d - 2), 1.0)]
        hist = [["fit", [r[0] for r in wide[:5]], [r[2] for r in wide[:5]], [list(r[1]) for r in wide[:5]]],
                ["partial_fit", [r[0] for r in wide[5:]], [r[2] for r in wide[5:]], [list(r[1]) for r in wide[5:]]]]
        mab = build(cfg, hist)
        q = [[1.5e5, 1.0] + [1.0] * (d - 2), [1e5, 0.0] + [0.0] * (d - 2)]
        msgs, out = judge(mab, hist, q, cls, alpha, lam, scale, tol=1e-4)
        acc.traces += 1
        acc.case((shard["p"], lam, scale, d, "wide-magnitude"))
        acc.state((shard["p"], lam, scale, d, "wide-magnitude"))
        if msgs:
            acc.violation("%s lam=%s scale=%s d=%d m=2 wide-magnitude allobs" % (shard["p"], lam, scale, d),
                          {"cfg": cfg, "history": hist, "query": q, "tol": 1e-4}, msgs[0])
        if lam == 0.5 and d == 3:
            tiny_cfg = copy.deepcopy(cfg)
            tiny_cfg["lp"] = [cls, dict(kw, l2_lambda=1e-6, scale=False)]
            hist = [["fit", [1, 1, 2], [1.0, 2.0, 0.5], [[10.0, 20.0, 5.0], [12.0, 18.0, 7.0], [1.0, 0.0, 0.0]]]]
            mab = build(tiny_cfg, hist)
            q = [[10.0, 20.0, 5.0], [1.0, 1.0, 30.0]]
            msgs, out = judge(mab, hist, q, cls, alpha, 1e-6, False, tol=1e-4)
            acc.traces += 1
            acc.case((shard["p"], "tiny-lambda"))
            acc.state((shard["p"], "tiny-lambda"))
            if msgs:
                acc.violation("%s lam=1e-06 scale=False d=3 m=2 tiny-lambda allobs" % shard["p"],
                              {"cfg": tiny_cfg, "history": hist, "query": q, "tol": 1e-4}, msgs[0])
    # large adjacent numeric labels, decisions handed over as lists, int64 and float64 arrays: every arm is the
    # regression of exactly its own rows (labels 1e5 apart from nothing but each other by 1)
    big = {1: 100001, 2: 100002}
    base_rows = [ROWS[d][i % len(ROWS[d])] for i in range(7)]
    seq = [(big[r[0]], r[1], r[2]) for r in base_rows] + [(7, ROWS[d][0][1], 1.5)]
    for enc in (None, "int64", "float64"):
        for cut in (len(seq), 5) if not scale else (len(seq),):
            big_cfg = dict(cfg, arms=[100001, 100002, 100003, 7])
            hist = []
            for i, (a, b) in enumerate([(0, cut), (cut, len(seq))]):
                if a == b:
                    continue
                chunk = seq[a:b]
                op = ["fit" if i == 0 else "partial_fit", [r[0] for r in chunk], [r[2] for r in chunk], [list(r[1]) for r in chunk]]
                hist.append(op + ([{"d": enc}] if enc else []))
            mab = build(big_cfg, hist)
            q = QUERIES[d][:2]
            msgs, out = judge(mab, hist, q, cls, alpha, lam, scale, arms0=big_cfg["arms"])
            acc.traces += 1
            acc.case((shard["p"], lam, scale, d, "big-labels", enc, cut))
            acc.state((shard["p"], lam, scale, d, "big-labels", enc, cut))
            if msgs:
                acc.violation("%s lam=%s scale=%s d=%d big-labels %s" % (shard["p"], lam, scale, d, enc or "list"),
                              {"cfg": big_cfg, "history": hist, "query": q}, "decisions as %s: %s" % (enc or "list", msgs[0]))
    # one long history per shard
    hist = long_history(d)
    mab = build(cfg, hist)
    for m in (1, 3):
        q = QUERIES[d][:m]
        msgs, out = judge(mab, hist, q, cls, alpha, lam, scale)
        acc.traces += 1
        acc.case((shard["p"], lam, scale, d, "long", m))
        acc.state((shard["p"], lam, scale, d, "long"))
        if msgs:
            acc.violation("%s lam=%s scale=%s d=%d m=%d long-history allobs" % (shard["p"], lam, scale, d, m),
                          {"cfg": cfg, "history": hist, "query": q}, msgs[0])
    return acc.result()


def replay(w):
    cfg = w["cfg"]
    cls, kw = cfg["lp"]
    msgs, _ = judge(build(cfg, w["history"]), w["history"], w["query"], cls, kw.get("alpha", 0), kw.get("l2_lambda", 1),
                    kw.get("scale", False), tol=w.get("tol"), arms0=cfg["arms"])
    return msgs
