"""C17 - a rejected call changes nothing.

For every policy combination, in every state of a small set of valid prefixes (unfitted,
fitted, fitted + partial_fit, fitted with a cold arm listed last / first), each call of a
catalogue of invalid calls is injected once; if the library rejects it, the bandit and a twin
copied before the call must agree on arms and on the outputs after every continuation up to
the depth bound."""
from .. import env  # noqa: F401
import copy

import numpy as np
import pandas as pd

from .. import alphabet as A, canon, data, ops, report, statespace as S

ID = "C17"
NAN, INF = float("nan"), float("inf")


def _lam_binarizer(arm, reward):
    return reward > 0


def catalogue(cf, arms, is_ts):
    """name -> function(mab) performing one invalid call.  arms: current arm list (ints)."""
    a0, a1 = arms[0], arms[1 % len(arms)]
    x2 = [[0, 0], [1, 1]]
    x3 = [[0, 0, 0], [1, 1, 1]]

    def tr(kind, d, r, x=x2):
        if cf:
            return lambda m: getattr(m, kind)(d, r)
        return lambda m: getattr(m, kind)(d, r, copy.deepcopy(x))
    calls = {
        "fit_len_mismatch": tr("fit", [a0, a1], [1]),
        "pfit_len_mismatch": tr("partial_fit", [a0, a1], [1]),
        "fit_nan_reward": tr("fit", [a0, a1], [1, NAN]),
        "pfit_nan_reward": tr("partial_fit", [a0, a1], [1, NAN]),
        "pfit_inf_reward": tr("partial_fit", [a0, a1], [1, INF]),
        "pfit_none_reward": tr("partial_fit", [a0, a1], [1, None]),
        "pfit_str_reward": tr("partial_fit", [a0, a1], ["a", "b"]),
        "pfit_tuple_decisions": tr("partial_fit", (a0, a1), [1, 1]),
        "fit_dict_rewards": tr("fit", [a0, a1], {0: 1, 1: 1}),
        "pfit_scalar_decisions": tr("partial_fit", a0, [1]),
        "pfit_ctx_presence": (lambda m: m.partial_fit([a0, a1], [1, 1], copy.deepcopy(x2))) if cf else
                             (lambda m: m.partial_fit([a0, a1], [1, 1])),
        "fit_ctx_presence": (lambda m: m.fit([a0, a1], [1, 1], copy.deepcopy(x2))) if cf else
                            (lambda m: m.fit([a0, a1], [1, 1])),
        "predict_1d_contexts": lambda m: m.predict([0, 0]),
        "expectations_3d_contexts": lambda m: m.predict_expectations([[[0, 0]]]),
        "predict_str_contexts": lambda m: m.predict("ab"),
        "add_duplicate_arm": lambda m: m.add_arm(a0),
        "add_none_arm": lambda m: m.add_arm(None),
        "add_nan_arm": lambda m: m.add_arm(np.nan),
        "add_inf_arm": lambda m: m.add_arm(np.inf),
        "add_binarizer_not_callable": lambda m: m.add_arm(99, 5),
        "remove_unknown_arm": lambda m: m.remove_arm(77),
        "remove_none_arm": lambda m: m.remove_arm(None),
        "warm_start_not_dict": lambda m: m.warm_start([[1, 0]] * len(arms), 0.5),
        "warm_start_int_quantile": lambda m: m.warm_start({a: [1, i] for i, a in enumerate(arms)}, 1),
        "warm_start_quantile_range": lambda m: m.warm_start({a: [1, i] for i, a in enumerate(arms)}, 1.5),
        "warm_start_missing_arm": lambda m: m.warm_start({a0: [1, 0]}, 0.5) if len(arms) > 1 else m.warm_start({}, 0.5),
        "warm_start_extra_arm": lambda m: m.warm_start(dict({a: [1, i] for i, a in enumerate(arms)}, **{"zz": [1, 1]}), 0.5),
        "warm_start_all_zero": lambda m: m.warm_start({a: [0, 0] for a in arms}, 0.5),
        "warm_start_ragged": lambda m: m.warm_start({a: [1] * (1 + i) for i, a in enumerate(arms)}, 0.5),
    }
    if not is_ts:
        calls["add_binarizer_non_thompson"] = lambda m: m.add_arm(99, _lam_binarizer)
    else:
        calls["pfit_nonbinary_thompson"] = tr("partial_fit", [a0, a1], [1, 2])
        calls["fit_nonbinary_thompson"] = tr("fit", [a0, a1], [0.5, 1])
    if not cf:
        calls.update({
            "pfit_ctx_too_few_rows": lambda m: m.partial_fit([a0, a1], [1, 1], [[0, 0]]),
            "fit_ctx_too_many_rows": lambda m: m.fit([a0, a1], [1, 1], [[0, 0], [1, 1], [2, 2]]),
            "pfit_ctx_1d": lambda m: m.partial_fit([a0, a1], [1, 1], [0, 0]),
            "pfit_ctx_3d": lambda m: m.partial_fit([a0, a1], [1, 1], [[[0, 0]], [[1, 1]]]),
            "pfit_ctx_wrong_columns": lambda m: m.partial_fit([a0, a1], [1, 1], copy.deepcopy(x3)),
            "pfit_ctx_wrong_columns_rev": lambda m: m.partial_fit([a1, a0], [1, 1], copy.deepcopy(x3)),
            "pfit_ctx_one_column": lambda m: m.partial_fit([a0, a1], [1, 1], [[0], [1]]),
            # a Series with several decisions is one feature column (wrong width here); its length equals the number
            # of decisions and the number of features of the fitted bandit
            "pfit_ctx_series_column": lambda m: m.partial_fit([a0, a1], [1, 1], pd.Series([0.0, 1.0])),
            "pfit_ctx_series_column_rev": lambda m: m.partial_fit([a1, a0], [1, 1], pd.Series([0.0, 1.0])),
            "pfit_ctx_series_column_int": lambda m: m.partial_fit([a0, a1], [1, 0], pd.Series([1, 1], index=[7, 3])),
            "fit_one_row": lambda m: m.fit([a1], [1], [[0, 0]]),          # rejected under Clusters only (inside training)
            "fit_one_row_other_width": lambda m: m.fit([a1], [1], [[0, 0, 0]]),      # same, with another feature count
            "fit_other_width_nan_reward": lambda m: m.fit([a0, a1], [1, NAN], copy.deepcopy(x3)),
            "fit_other_width_len_mismatch": lambda m: m.fit([a0, a1], [1], copy.deepcopy(x3)),
            "predict_wrong_columns": lambda m: m.predict(copy.deepcopy(x3)),
            "expectations_wrong_columns": lambda m: m.predict_expectations(copy.deepcopy(x3)),
            "predict_no_contexts": lambda m: m.predict(),
            "expectations_no_contexts": lambda m: m.predict_expectations(),
        })
    return calls


PREDICT_TIME = ("predict_wrong_columns", "expectations_wrong_columns", "predict_1d_contexts", "expectations_3d_contexts",
                "predict_str_contexts", "predict_no_contexts", "expectations_no_contexts")

STAGES = ["unfitted", "fitted", "fitted_partial", "cold_last", "cold_first"]


def meta(tier, seed):
    return {
        "rule": "a case = (combination, stage, invalid call, continuation); non-trivial iff the library rejected the call "
                "(then either the complete object graph is bit-identical to the pre-call twin, which decides all futures, "
                "or every continuation is compared); distinct by the full case",
        "oracle": "the call raised => arms unchanged and, after every continuation, subject and pre-call twin give "
                  "identical predict / predict_expectations (or the same exception class); errors raised during "
                  "prediction are compared after aligning generator positions (a prediction may advance the streams)",
        "bounds": {"stages": STAGES, "invalid_constructor_calls": len(init_catalogue()), "invalid_calls": "%d (context-free) / %d (contextual)" % (
            len(catalogue(True, [1, 2], False)), len(catalogue(False, [1, 2], False))),
            "positions": "the five stages plus every state of the shared BFS up to depth %d" % (2 if tier == "quick" else 3),
            "continuation_depth": 2},
        "assumptions": ["a call the library accepts is not this property's subject (counted)"],
    }


def shards(tier, seed):
    out = []
    for ln, nn in A.combos():
        out.append({"ln": ln, "nn": nn, "cdepth": 2, "bfs": 2 if tier == "quick" else 3, "seed": 81 + seed})
    return A.heavy_first(out)


def stage_state(cfg, stage):
    """-> (mab, arms) in the given stage."""
    cf = ops.is_context_free(cfg)
    c = copy.deepcopy(cfg)
    if stage == "cold_first":
        c["arms"] = [0, 1, 2]
    mab = ops.build(c)
    if stage == "unfitted":
        return mab
    train_arms = [1, 2]
    ops.apply(mab, data.batch("fit", train_arms, [0, 1, 0, 1, 0, 1], data.R6, data.X6, cf))
    if stage == "fitted_partial":
        ops.apply(mab, data.batch("partial_fit", train_arms, [1, 0], [1, 0], [[1, 1], [0, 1]], cf))
    if stage == "cold_last":
        ops.apply(mab, ["add_arm", 0])
    return mab


def judge(cfg, ln, stage, name, cdepth, acc=None, state=None):
    cf = ops.is_context_free(cfg)
    is_ts = cfg["lp"][0] == "ThompsonSampling"
    try:
        if state is not None:
            subject = copy.deepcopy(state)
        elif isinstance(stage, dict):
            subject = ops.run_history(cfg, stage["history"])
        else:
            subject = stage_state(cfg, stage)
    except Exception:                                         # noqa: BLE001
        return []
    if S.knn_short(subject):
        return []
    twin = copy.deepcopy(subject)
    arms = list(subject.arms)
    call = catalogue(cf, arms, is_ts).get(name)
    if call is None:
        return []
    ops.COUNTERS["transitions"] += 1
    try:
        call(subject)
    except Exception as e:                                    # noqa: BLE001
        exc = type(e).__name__
    else:
        if acc is not None:
            acc.skip("call accepted by the library (not a rejected call): %s" % name)
        return []
    msgs = []
    if list(subject.arms) != arms or list(subject._imp.arms) != arms:
        msgs.append(([], "rejected %s (%s) changed the arm list: %r -> %r" % (name, exc, arms, list(subject.arms))))
    if name in PREDICT_TIME:
        strict = ln in ("lts", "lts1")
        ignore = (".arm_to_model",) if ln in ("lg", "lucb") else ()
        if not canon.sync_streams(subject, twin, strict, ignore):
            if acc is not None:
                acc.skip("generator identities differ after a prediction-time error")
            return msgs
    if not msgs and canon.digest(subject) == canon.digest(twin):
        # identical complete object graphs (generator positions included) have identical futures:
        # no continuation can tell them apart
        if acc is not None:
            acc.traces += 1
            acc.case((str(cfg), str(stage), name, "state-identical"))
            acc.counters["rejected calls leaving a bit-identical object graph"] += 1
            acc.outcome([name, exc, "identical"])
        return msgs
    if acc is not None:
        acc.counters["rejected calls after which the object graph differs (continuations compared)"] += 1
    qs = [None] if cf else [[[0, 0], [1, 1], [2, 2]], [[1, 1]]]
    if not S.fitted(twin):
        qs = [None] if cf else [[[0, 0]]]
    conts = list(S.continuations(twin, cf, "int", [], cdepth))
    for cont in conts:
        s2, t2 = copy.deepcopy(subject), copy.deepcopy(twin)
        bad = None
        for op in cont:
            ra = rb = None
            try:
                ops.apply(s2, op)
            except Exception as e:                            # noqa: BLE001
                ra = type(e).__name__
            try:
                ops.apply(t2, op, count=False)
            except Exception as e:                            # noqa: BLE001
                rb = type(e).__name__
            if ra != rb:
                bad = "after rejected %s (%s), %r: subject raised %r, twin raised %r" % (name, exc, [o[0] for o in cont], ra, rb)
                break
            if ra is not None:
                break
        if bad is None:
            oa, ob = ops.observe(s2, qs), ops.observe(t2, qs)
            oa.append(ops.norm(list(s2.arms)))
            ob.append(ops.norm(list(t2.arms)))
            if acc is not None:
                acc.outcome(oa)
            tol = 1e-9 if ln in A.LINEAR_LPS else 0.0
            if not ops.same(oa, ob, rtol=tol, atol=tol):
                bad = "after rejected %s (%s) and continuation %r: subject %r != twin %r" % (
                    name, exc, [o[0] for o in cont], oa, ob)
        if acc is not None:
            acc.traces += 1
            acc.case((str(cfg), str(stage), name, str(cont)) if cont else None)
        if bad:
            msgs.append((cont, bad))
    return msgs


def init_catalogue():
    """name -> (function constructing an invalid MAB, the caller-owned argument objects to watch)"""
    from mabwiser.mab import MAB, LearningPolicy as LP, NeighborhoodPolicy as NP
    tp = {"max_depth": 2}
    probs = [0.5, 0.5]
    arms = [1, 2]
    dup = [1, 1]
    none_arms = [1, None]
    return {
        "arms_not_list": (lambda: MAB((1, 2), LP.EpsilonGreedy()), []),
        "arms_duplicate": (lambda: MAB(dup, LP.EpsilonGreedy()), [dup]),
        "arms_none": (lambda: MAB(none_arms, LP.EpsilonGreedy()), [none_arms]),
        "arms_nan": (lambda: MAB([1, np.nan], LP.UCB1()), []),
        "arms_inf": (lambda: MAB([1, np.inf], LP.UCB1()), []),
        "lp_wrong_type": (lambda: MAB(arms, "EpsilonGreedy"), [arms]),
        "lp_epsilon_range": (lambda: MAB(arms, LP.EpsilonGreedy(epsilon=2)), [arms]),
        "lp_alpha_negative": (lambda: MAB(arms, LP.UCB1(alpha=-1)), [arms]),
        "lp_tau_zero": (lambda: MAB(arms, LP.Softmax(tau=0)), [arms]),
        "lp_l2_type": (lambda: MAB(arms, LP.LinUCB(l2_lambda="1")), [arms]),
        "lp_binarizer_not_callable": (lambda: MAB(arms, LP.ThompsonSampling(binarizer=3)), [arms]),
        "np_wrong_type": (lambda: MAB(arms, LP.UCB1(), "Radius"), [arms]),
        "np_radius_negative": (lambda: MAB(arms, LP.UCB1(), NP.Radius(radius=-1)), [arms]),
        "np_radius_probs_sum": (lambda: MAB(arms, LP.UCB1(), NP.Radius(2, no_nhood_prob_of_arm=[0.5, 0.6])), [arms]),
        "np_k_zero": (lambda: MAB(arms, LP.UCB1(), NP.KNearest(k=0)), [arms]),
        "np_metric_unknown": (lambda: MAB(arms, LP.UCB1(), NP.KNearest(k=1, metric="nope")), [arms]),
        "np_clusters_one": (lambda: MAB(arms, LP.UCB1(), NP.Clusters(n_clusters=1)), [arms]),
        "np_lsh_dimensions": (lambda: MAB(arms, LP.UCB1(), NP.LSHNearest(n_dimensions=0)), [arms]),
        "tree_bad_parameter": (lambda: MAB(arms, LP.UCB1(), NP.TreeBandit({"no_such_parameter": 1})), [arms]),
        "tree_incompatible_lp": (lambda: MAB(arms, LP.Softmax(), NP.TreeBandit(tp)), [arms, tp]),
        "tree_incompatible_lp_default": (lambda: MAB(arms, LP.LinUCB(), NP.TreeBandit()), [arms]),
        "radius_probs_with_bad_seed": (lambda: MAB(arms, LP.UCB1(), NP.Radius(2, no_nhood_prob_of_arm=probs), seed=1.5), [arms, probs]),
        "seed_float": (lambda: MAB(arms, LP.UCB1(), seed=1.5), [arms]),
        "n_jobs_zero": (lambda: MAB(arms, LP.UCB1(), n_jobs=0), [arms]),
        "n_jobs_float": (lambda: MAB(arms, LP.UCB1(), n_jobs=1.0), [arms]),
        "backend_not_str": (lambda: MAB(arms, LP.UCB1(), backend=3), [arms]),
    }


def init_part(shard, acc):
    """Rejected constructors: the arguments, an existing bandit and every bandit built afterwards are unaffected."""
    ln, nn = shard["ln"], shard["nn"]
    cfg = A.config(ln, nn, seed=shard["seed"])
    existing = stage_state(cfg, "fitted")
    before = canon.digest(existing)
    fresh_ref = canon.digest(stage_state(cfg, "fitted"))
    for name, (call, watched) in init_catalogue().items():
        snaps = [copy.deepcopy(w) for w in watched]
        ops.COUNTERS["transitions"] += 1
        try:
            call()
        except Exception as e:                                # noqa: BLE001
            exc = type(e).__name__
        else:
            acc.skip("constructor call accepted by the library: %s" % name)
            continue
        acc.traces += 1
        acc.state((ln, nn, "init", name))
        acc.case((ln, nn, "init", name))
        acc.outcome([name, exc])
        msg = None
        if any(repr(a) != repr(b) for a, b in zip(watched, snaps)):
            msg = "rejected constructor %s (%s) modified its arguments: %r -> %r" % (name, exc, snaps, watched)
        elif canon.digest(existing) != before:
            msg = "rejected constructor %s (%s) changed an existing bandit" % (name, exc)
        elif canon.digest(stage_state(cfg, "fitted")) != fresh_ref:
            msg = "a bandit built and trained after the rejected constructor %s (%s) differs from one built before it" % (name, exc)
        if msg:
            acc.violation("%s/%s init %s" % (ln, nn, name), {"cfg": cfg, "ln": ln, "stage": "init", "call": name,
                                                             "cdepth": 0}, msg)


def run_shard(shard):
    ln, nn = shard["ln"], shard["nn"]
    cfg = A.config(ln, nn, seed=shard["seed"])
    cf = ops.is_context_free(cfg)
    is_ts = cfg["lp"][0] == "ThompsonSampling"
    acc = report.Acc(ID, replay, shard)
    names = list(catalogue(cf, [1, 2], is_ts))
    for stage in STAGES:
        for name in names:
            acc.state((ln, nn, stage, name))
            res = judge(cfg, ln, stage, name, shard["cdepth"], acc)
            for cont, msg in res[:2]:
                acc.violation("%s/%s %s %s" % (ln, nn, stage, name),
                              {"cfg": cfg, "ln": ln, "stage": stage, "call": name, "cdepth": shard["cdepth"]}, msg)
        if stage == "fitted":
            acc.sample({"cfg": cfg, "stage": stage, "invalid_calls": names[:8] + ["..."],
                        "then": "every continuation up to depth %d, then queries" % shard["cdepth"]})

    init_part(shard, acc)

    # every position of every valid history up to the BFS depth (shared state-space search)
    def visit(mab, hist, removed):
        if len(mab.arms) < 2:
            return
        for name in names:
            acc.state((ln, nn, str(hist), name))
            res = judge(cfg, ln, {"history": hist}, name, shard["cdepth"], acc, state=mab)
            for cont, msg in res[:2]:
                acc.violation("%s/%s after %s %s" % (ln, nn, "+".join(o[0] for o in hist) or "construction", name),
                              {"cfg": cfg, "ln": ln, "stage": {"history": hist}, "call": name, "cdepth": shard["cdepth"]}, msg)
    S.explore(cfg, "int", shard["bfs"], acc, visit, query=True)       # positions after predictions too
    return acc.result()


def replay(w):
    if w["stage"] == "init":
        acc = report.Acc(ID, None, None)
        init_part({"ln": w["ln"], "nn": [k for k, v in A.NPS.items() if v == w["cfg"]["np"]][0], "seed": w["cfg"]["seed"]}, acc)
        return [v["message"] for v in acc.violations if w["call"] in v["sig"]]
    return [m for _c, m in judge(w["cfg"], w["ln"], w["stage"], w["call"], w["cdepth"])]
