"""C07 - fit discards everything learned before.

Explicit-state BFS over prior histories (depth d) of the real bandit for every policy
combination; in every reached state, for every data set D of the D-alphabet: fit(D) on a
deep copy and on a freshly constructed bandit (same configuration, current arm list,
current binarizer) from the same stream position; outputs on the query set, arms, cold
arms, and the outputs after every one-step continuation must coincide."""
from .. import env  # noqa: F401
import copy

from .. import alphabet as A, canon, data, ops, report

ID = "C07"


def meta(tier, seed):
    return {
        "rule": "a case = (policy combination, prior history, data set D, continuation); non-trivial iff the prior "
                "history contains at least one training call (so there is something to forget); distinct by "
                "(combination, canonical digest of the prior state, D, continuation)",
        "oracle": "subject.fit(D) vs fresh MAB(current arms, same policies/seed).fit(D) from the same stream position: "
                  "predict / predict_expectations on a batch and on a single row, arms, cold_arms, and again after each "
                  "one-step continuation",
        "bounds": {"prior_history_depth": 2 if tier == "quick" else 3, "arms": "2 (+1 added)",
                   "D": ["small(2 rows)", "large(8 rows)", "3 feature columns", "arm omitted", "same as before"],
                   "continuations": ["none", "partial_fit", "add_arm", "remove_arm", "warm_start"],
                   "label_types": ["int"] if tier == "quick" else ["int", "str"]},
        "assumptions": ["LinTS: where generator identities of subject and fresh bandit differ the comparison is on "
                        "expectations with alpha=1e-9 (tolerance 1e-6) only (DESIGN 3.2)"],
    }


def shards(tier, seed):
    out = []
    for ln, nn in A.combos(lints1=True):
        for labels in (["int"] if tier == "quick" else ["int", "str"]):
            out.append({"ln": ln, "nn": nn, "labels": labels, "depth": 2 if tier == "quick" else 3,
                        "seed": 11 + seed})
    return A.heavy_first(out)


def _arms(labels):
    return [1, 2] if labels == "int" else ["b", "a"]


def _new_arm(labels):
    return 3 if labels == "int" else "c"


def _prefix_ops(mab, cf, labels, fitted):
    arms = list(mab.arms)
    out = [data.batch("fit", arms, [0, 1, 0, 1, 0, 1], data.R6, data.X6, cf),
           data.batch("partial_fit", arms, [1, 0, 1], [1, 1, 0], [[1, 1], [2, 0], [0, 0]], cf),
           data.batch("partial_fit", arms, [0, 0], [0, 1], [[0, 1], [0, 1]], cf),
           # an arm observed with reward 0 only: its sums are zero although it has data
           data.batch("fit", arms, [0, 1, 0, 1], [0, 1, 0, 0], [[1, 0], [0, 1], [1, 1], [2, 1]], cf)]
    na = _new_arm(labels)
    if na not in arms:
        out.append(["add_arm", na])
    if len(arms) > 1:
        out.append(["remove_arm", arms[0]])
    if fitted:
        out.append(["predict", None if cf else data.Q2])
    out.append(["warm_start", [[a, [1, i % 2, (i // 2) % 2]] for i, a in enumerate(arms)], 1.0])
    return out


def _d_ops(arms, cf):
    return [
        ("small", data.batch("fit", arms, [0, 1], [1, 0], [[0, 0], [1, 1]], cf)),
        ("large", data.batch("fit", arms, [0, 1, 1, 0, 0, 1, 0, 1], data.R8, data.X8, cf)),
        ("cols3", data.batch("fit", arms, [0, 1, 1, 0], [1, 0, 0, 1], data.X3C, cf)),
        ("omit", data.batch("fit", arms, [1, 1, 1], [1, 0, 1], [[0, 0], [1, 1], [0, 2]], cf) if len(arms) > 1 else
         data.batch("fit", arms, [0, 0, 0], [1, 0, 1], [[0, 0], [1, 1], [0, 2]], cf)),
    ]


def _cont_ops(arms, cf, labels, cols3):
    x2 = [[0, 0, 1], [1, 1, 0]] if cols3 else [[0, 1], [1, 1]]
    out = [("none", None),
           ("partial_fit", data.batch("partial_fit", arms, [0, 1], [1, 1], x2, cf))]
    na = 9 if labels == "int" else "z"
    out.append(("add_arm", ["add_arm", na]))
    if len(arms) > 1:
        out.append(("remove_arm", ["remove_arm", arms[-1]]))
    out.append(("warm_start", ["warm_start", [[a, [1, i % 2]] for i, a in enumerate(arms)], 1.0]))
    return out


def _fresh_cfg(cfg, subject):
    c = copy.deepcopy(cfg)
    c["arms"] = list(subject.arms)
    if c["lp"][0] == "ThompsonSampling":
        b = subject.learning_policy.binarizer
        c["lp"] = ["ThompsonSampling", {"binarizer": b.__name__ if b else None}]
    return c


def _observe(mab, cf, cols3):
    q = data.Q3C if cols3 else data.Q2
    queries = [None] if cf else [q, [q[1]]]
    obs = ops.observe(mab, queries)
    obs.append({"arms": ops.norm(list(mab.arms)), "cold": ops.norm(list(mab.cold_arms))})
    return obs


def _compare(a, b, ln, synced):
    """-> None if equal under this policy's comparison rule, else text."""
    if ln == "lts":
        # only expectations (odd positions) and arms, with tolerance
        a = [x for i, x in enumerate(a) if i % 2 == 1 or isinstance(x, dict) and "arms" in x]
        b = [x for i, x in enumerate(b) if i % 2 == 1 or isinstance(x, dict) and "arms" in x]
        ok = ops.same(a, b, rtol=1e-6, atol=1e-6)
    elif ln in A.LINEAR_LPS:
        ok = ops.same(a, b, rtol=1e-9, atol=1e-9)
    else:
        ok = ops.same(a, b)
    return None if ok else "subject %r != fresh %r" % (a, b)


def judge(subject, cfg, ln, dname, dop, cont, acc=None):
    """subject: live bandit in its prior state (not modified).  -> list of messages."""
    cf = ops.is_context_free(cfg)
    cols3 = dname == "cols3"
    s = copy.deepcopy(subject)
    f = ops.build(_fresh_cfg(cfg, subject))
    strict = ln in ("lts", "lts1")
    ignore = (".arm_to_model",) if ln in ("lg", "lucb") else ()
    pre = canon.sync_streams(s, f, strict, ignore)
    if not pre and not strict:
        return ["generator paths of subject and fresh bandit differ before fit"]
    errs = []
    try:
        ops.apply(s, dop)
    except Exception as e:                                   # noqa: BLE001
        errs.append(("subject", type(e).__name__))
    try:
        ops.apply(f, dop)
    except Exception as e:                                   # noqa: BLE001
        errs.append(("fresh", type(e).__name__))
    if errs:
        if len(errs) == 2 and errs[0][1] == errs[1][1]:
            return []
        return ["fit(D) raised differently: %r" % errs]
    if cont is not None:
        ra = rb = None
        try:
            ops.apply(s, cont)
        except Exception as e:                               # noqa: BLE001
            ra = type(e).__name__
        try:
            ops.apply(f, cont)
        except Exception as e:                               # noqa: BLE001
            rb = type(e).__name__
        if ra != rb:
            return ["continuation %r: subject raised %r, fresh raised %r" % (cont[0], ra, rb)]
        if ra is not None:
            return []
    synced = canon.sync_streams(s, f, strict, ignore) and pre
    if ln == "lts1" and not synced:
        if acc is not None:
            acc.skip("LinTS(alpha=1): generator identities differ, case not comparable")
        return []
    oa, ob = _observe(s, cf, cols3), _observe(f, cf, cols3)
    if acc is not None:
        acc.outcome(oa)
    d = _compare(oa, ob, ln, synced)
    return [d] if d else []


def run_shard(shard):
    ln, nn, labels = shard["ln"], shard["nn"], shard["labels"]
    cfg = A.config(ln, nn, arms=_arms(labels), seed=shard["seed"])
    cf = ops.is_context_free(cfg)
    acc = report.Acc(ID, replay, shard)
    m0 = ops.build(cfg)
    frontier = [(m0, [], False, False)]          # bandit, history, fitted, trained-before
    acc.state(canon.digest(m0))
    depth = 0
    while True:
        nxt = []
        for mab, hist, fitted, trained in frontier:
            sd = canon.digest(mab)
            for dname, dop in _d_ops(list(mab.arms), cf):
                arms_after = list(mab.arms)
                for cname, cont in _cont_ops(arms_after, cf, labels, dname == "cols3"):
                    msgs = judge(mab, cfg, ln, dname, dop, cont, acc)
                    acc.traces += 1
                    acc.case((ln, nn, sd, dname, cname) if trained else None)
                    if msgs:
                        acc.violation("%s/%s D=%s cont=%s prior=%s" % (ln, nn, dname, cname, "+".join(o[0] for o in hist)),
                                      {"cfg": cfg, "ln": ln, "history": hist, "D": [dname, dop], "cont": cont}, msgs[0])
            if len(hist) < 3 and trained:
                acc.sample({"cfg": cfg, "history": hist, "then": "fit(D) for each D, each continuation"})
            if depth == shard["depth"]:
                continue
            for op in _prefix_ops(mab, cf, labels, fitted):
                m2 = copy.deepcopy(mab)
                try:
                    ops.apply(m2, op)
                except Exception as e:                       # noqa: BLE001
                    acc.skip("prefix op %s raised %s" % (op[0], type(e).__name__))
                    continue
                if acc.state(canon.digest(m2)):
                    is_train = op[0] in ("fit", "partial_fit")
                    nxt.append((m2, hist + [op], fitted or is_train, trained or is_train))
        if depth == shard["depth"] or not nxt:
            break
        frontier = nxt
        depth += 1
    return acc.result()


def replay(w):
    cfg, ln = w["cfg"], w["ln"]
    subject = ops.build(cfg)
    for op in w["history"]:
        ops.apply(subject, op)
    return judge(subject, cfg, ln, w["D"][0], w["D"][1], w["cont"])
