"""C18 - results are independent of the data container type; inputs are never modified.

Deviation-bounded exhaustive enumeration: a fixed scenario (construct, fit, partial_fit, add_arm,
predict, predict_expectations, remove_arm, warm_start, single-row predict) is executed with every
assignment of container encodings to its seven data axes that deviates from the all-lists
baseline in at most B axes, for every policy combination; plus the Series disambiguation
scenarios (single-row and single-feature data).  Outputs must equal the baseline's and every
object handed to the library must be byte-identical before and after every call."""
from .. import env  # noqa: F401
import copy
import itertools

import numpy as np
import pandas as pd

from .. import alphabet as A, ops, report
from mabwiser.mab import MAB, LearningPolicy, NeighborhoodPolicy

ID = "C18"

DEC_ENC = ["list", "nd_int", "nd_float", "series", "series_idx"]
REW_ENC = ["list_int", "list_float", "nd_int", "nd_float", "series_idx"]
CTX_ENC = ["list", "nd_c", "nd_f", "nd_float", "strided", "transposed", "df", "df_labels"]
AXES = [("fit_d", DEC_ENC), ("fit_r", REW_ENC), ("fit_x", CTX_ENC), ("pf_d", DEC_ENC), ("pf_r", REW_ENC),
        ("pf_x", CTX_ENC), ("q_x", CTX_ENC)]

FIT_D, FIT_R = [1, 2, 1, 2, 1, 2], [1, 0, 1, 1, 0, 1]
FIT_X = [[0, 0], [0, 1], [1, 0], [1, 1], [2, 0], [0, 2]]
PF_D, PF_R, PF_X = [2, 1, 3], [1, 0, 1], [[1, 1], [0, 1], [2, 2]]
Q = [[0, 0], [1, 1], [2, 2]]


def meta(tier, seed):
    return {
        "rule": "a case = (combination, encoding assignment); non-trivial iff it deviates from the all-lists baseline "
                "in at least one axis, or is a Series-disambiguation scenario; distinct by the assignment",
        "oracle": "outputs (two predictions, one expectation set, arms) equal to the all-lists baseline (exact; 1e-9 for "
                  "linear policies); byte-level snapshot (buffer, dtype, shape, strides, index, columns; lists and dicts "
                  "deeply) of every caller object - data containers, arms list, policy parameter objects, feature dict - "
                  "identical before and after every call; the bandit's arm list is independent of the constructor's list",
        "bounds": {"axes": [a for a, _ in AXES], "encodings": {"decisions": DEC_ENC, "rewards": REW_ENC, "contexts": CTX_ENC, "float_contexts": FLOAT_CTX_ENC},
                   "max_deviating_axes": 2 if tier == "quick" else 3,
                   "series_scenarios": ["single feature column as Series (fit, partial_fit, predict)",
                                        "single row as Series (fit with one decision, predict)"]},
        "assumptions": ["int arm labels for the full deviation bound (float-typed decision arrays must select the same arms); "
                        "str labels with one deviating axis"],
    }


def shards(tier, seed):
    out = []
    for ln, nn in A.combos(lints1=True):
        out.append({"ln": ln, "nn": nn, "dev": 2 if tier == "quick" else 3, "seed": 111 + seed})
    for ln in A.SCALED_LPS:          # per-arm standardisation: scalers see the containers too
        for nn in ("none", "rad"):
            out.append({"ln": ln, "nn": nn, "dev": 2 if tier == "quick" else 3, "seed": 111 + seed})
    return A.heavy_first(out)


# ---------------------------------------------------------------- encoders
def enc_dec(kind, v):
    if kind == "list":
        return list(v)
    if kind == "nd_int":
        return np.asarray(v, dtype=np.int64)
    if kind == "nd_float":
        return np.asarray(v, dtype=np.float64)
    if kind == "series":
        return pd.Series(list(v))
    return pd.Series(list(v), index=[(7 * i + 3) % 11 for i in range(len(v))])      # non-monotonic labels


def enc_rew(kind, v, scale=1):
    v = [x * scale for x in v]
    if kind == "list_int":
        return [int(x) for x in v]
    if kind == "list_float":
        return [float(x) for x in v]
    if kind == "nd_int":
        return np.asarray(v, dtype=np.int64)
    if kind == "nd_float":
        return np.asarray(v, dtype=np.float64)
    return pd.Series([float(x) for x in v], index=[(5 * i + 2) % 13 for i in range(len(v))])


FLOAT_CTX_ENC = ["list", "nd_c", "nd_f", "strided", "transposed", "df", "df_labels", "nd_ro"]


def enc_ctx(kind, v, as_float=False):
    if as_float:
        # non-dyadic values: an in-place transformation of the caller's buffer that is 'undone' afterwards
        # (centering, scaling) does not round-trip exactly and shows in the byte-level snapshot
        # the first row keeps its integer values (Python ints in the list encoding, the same numbers as float64 in
        # the array encodings): a heterogeneous nested list must mean the same matrix as the equivalent array
        a = np.asarray(v, dtype=np.float64) * 0.3 + 0.1
        a[0] = np.asarray(v[0], dtype=np.float64)
        if kind == "list":
            return [[int(x) for x in v[0]]] + [[float(x) for x in r] for r in a[1:]]
        if kind == "nd_ro":
            a = np.ascontiguousarray(a)
            a.setflags(write=False)
            return a
        if kind == "nd_c":
            return np.ascontiguousarray(a)
        if kind == "nd_f":
            return np.asfortranarray(a)
        if kind == "strided":
            big = np.zeros((a.shape[0] * 2, a.shape[1] * 2), dtype=np.float64)
            big[::2, ::2] = a
            return big[::2, ::2]
        if kind == "transposed":
            return np.ascontiguousarray(a.T).T
        if kind == "df":
            return pd.DataFrame(a)
        return pd.DataFrame(a, columns=["f%d" % i for i in range(a.shape[1])], index=[(3 * i + 1) % 17 for i in range(a.shape[0])])
    a = np.asarray(v, dtype=np.int64)
    if kind == "list":
        return [list(r) for r in v]
    if kind == "nd_c":
        return np.ascontiguousarray(a)
    if kind == "nd_f":
        return np.asfortranarray(a)
    if kind == "nd_float":
        return a.astype(np.float64)
    if kind == "strided":
        big = np.zeros((a.shape[0] * 2, a.shape[1] * 2), dtype=np.int64)
        big[::2, ::2] = a
        return big[::2, ::2]
    if kind == "transposed":
        return np.ascontiguousarray(a.T).T
    if kind == "df":
        return pd.DataFrame(a)
    return pd.DataFrame(a, columns=["f%d" % i for i in range(a.shape[1])], index=[(3 * i + 1) % 17 for i in range(a.shape[0])])


def snapshot(o):
    if isinstance(o, np.ndarray):
        base = o if o.base is None else o.base
        base = base if isinstance(base, np.ndarray) else o
        return ("nd", str(o.dtype), o.shape, o.strides, np.asarray(base).tobytes(), np.ascontiguousarray(o).tobytes())
    if isinstance(o, pd.Series):
        return ("series", str(o.dtype), o.to_numpy().tobytes(), list(o.index), o.name)
    if isinstance(o, pd.DataFrame):
        return ("df", [str(t) for t in o.dtypes], o.to_numpy().tobytes(), list(o.index), list(o.columns))
    if isinstance(o, dict):
        return ("dict", [(repr(k), snapshot(v)) for k, v in o.items()])
    if isinstance(o, (list, tuple)):
        return (type(o).__name__, [snapshot(v) for v in o])
    if callable(o):
        return ("fn", id(o))
    return ("atom", type(o).__name__, repr(o))


class Watch:
    """Caller-side objects with a snapshot taken at registration."""

    def __init__(self):
        self.items = []

    def add(self, name, obj):
        self.items.append((name, obj, snapshot(obj)))
        return obj

    def changed(self):
        return [name for name, obj, snap in self.items if snapshot(obj) != snap]


def policy_objects(ln, nn):
    name, kw = A.LPS[ln]
    kw = dict(kw)
    if "binarizer" in kw:
        kw["binarizer"] = ops.bin_ge2          # with doubled rewards (see reward_scale): the conversion changes every value
    lp = getattr(LearningPolicy, name)(**kw)
    params = {}
    npol = None
    if A.NPS[nn] is not None:
        nname, nkw = A.NPS[nn]
        nkw = copy.deepcopy(nkw)
        # a valid distribution whose floating-point sum is not exactly 1 (nine-digit truncation): a library that
        # renormalises the caller's list in place changes every entry
        if nname == "Radius":
            nkw["no_nhood_prob_of_arm"] = [0.333333333, 0.666666666]
        if nname == "LSHNearest":
            nkw["no_nhood_prob_of_arm"] = [0.666666666, 0.333333333]
        params = nkw
        npol = getattr(NeighborhoodPolicy, nname)(**nkw)
    return lp, npol, params


LABELSETS = {"int": {1: 1, 2: 2, 3: 3}, "str": {1: "b", 2: "a", 3: "c"}}


def scenario(ln, nn, seed, assign, labels="int"):
    """assign: {axis: encoding}.  -> (outputs, list of 'call: object' that were modified)"""
    if labels != "int":
        return scenario_labels(ln, nn, seed, assign, LABELSETS[labels])
    cf = A.context_free(ln, nn)
    w = Watch()
    lp, npol, params = policy_objects(ln, nn)
    w.add("policy parameters", params)
    arms = w.add("arms list", [1, 2])
    mab = MAB(arms, lp, npol, seed=seed)
    modified = []

    def check(call):
        for name in w.changed():
            modified.append("%s modified %s" % (call, name))
    check("__init__")
    arms.append(99)                       # the caller's list is the caller's
    if list(mab.arms) != [1, 2]:
        modified.append("appending to the constructor's list changed mab.arms to %r" % (list(mab.arms),))
    arms.pop()
    outs = []
    d = w.add("fit decisions", enc_dec(assign["fit_d"], FIT_D))
    rs = 2 if ln == "tsb" else 1            # Thompson with a binarizer: rewards 0 / 2, so that converting is visible
    r = w.add("fit rewards", enc_rew(assign["fit_r"], FIT_R, rs))
    if cf:
        mab.fit(d, r)
    else:
        x = w.add("fit contexts", enc_ctx(assign["fit_x"], FIT_X, assign.get("_float", False)))
        mab.fit(d, r, x)
    check("fit")
    mab.add_arm(3)
    check("add_arm")
    if list(arms) != [1, 2]:
        modified.append("add_arm changed the caller's arm list to %r" % (arms,))
    d2 = w.add("partial_fit decisions", enc_dec(assign["pf_d"], PF_D))
    r2 = w.add("partial_fit rewards", enc_rew(assign["pf_r"], PF_R, rs))
    if cf:
        mab.partial_fit(d2, r2)
    else:
        x2 = w.add("partial_fit contexts", enc_ctx(assign["pf_x"], PF_X, assign.get("_float", False)))
        mab.partial_fit(d2, r2, x2)
    check("partial_fit")
    if cf:
        outs.append(ops.norm(mab.predict()))
        outs.append(ops.norm(mab.predict_expectations()))
    else:
        q = w.add("query contexts", enc_ctx(assign["q_x"], Q, assign.get("_float", False)))
        outs.append(ops.norm(mab.predict(q)))
        check("predict")
        outs.append(ops.norm(mab.predict_expectations(q)))
    check("predict_expectations")
    mab.remove_arm(1)
    check("remove_arm")
    feats = w.add("arm_to_features", {2: [1.0, 0.0], 3: [0.5, 0.5]})
    mab.warm_start(feats, 0.5)
    check("warm_start")
    if cf:
        outs.append(ops.norm(mab.predict()))
    else:
        q1 = w.add("single query row", enc_ctx(assign["q_x"], Q[1:2], assign.get("_float", False)))
        outs.append(ops.norm(mab.predict(q1)))
    check("final predict")
    outs.append(ops.norm(list(mab.arms)))
    return outs, modified


def scenario_labels(ln, nn, seed, assign, mp):
    """The same scenario with str arm labels (decision containers hold strings)."""
    cf = A.context_free(ln, nn)
    w = Watch()
    lp, npol, params = policy_objects(ln, nn)
    w.add("policy parameters", params)
    arms = w.add("arms list", [mp[1], mp[2]])
    mab = MAB(arms, lp, npol, seed=seed)
    modified = []

    def check(call):
        for name in w.changed():
            modified.append("%s modified %s" % (call, name))

    def dec(kind, v):
        v = [mp[a] for a in v]
        if kind == "list":
            return v
        if kind in ("nd_int", "nd_float"):
            return np.asarray(v)
        if kind == "series":
            return pd.Series(v)
        return pd.Series(v, index=[(7 * i + 3) % 11 for i in range(len(v))])
    outs = []
    d = w.add("fit decisions", dec(assign["fit_d"], FIT_D))
    rs = 2 if ln == "tsb" else 1            # Thompson with a binarizer: rewards 0 / 2, so that converting is visible
    r = w.add("fit rewards", enc_rew(assign["fit_r"], FIT_R, rs))
    if cf:
        mab.fit(d, r)
    else:
        mab.fit(d, r, w.add("fit contexts", enc_ctx(assign["fit_x"], FIT_X)))
    check("fit")
    mab.add_arm(mp[3])
    d2 = w.add("partial_fit decisions", dec(assign["pf_d"], PF_D))
    r2 = w.add("partial_fit rewards", enc_rew(assign["pf_r"], PF_R, rs))
    if cf:
        mab.partial_fit(d2, r2)
    else:
        mab.partial_fit(d2, r2, w.add("partial_fit contexts", enc_ctx(assign["pf_x"], PF_X)))
    check("partial_fit")
    if cf:
        outs.append(ops.norm(mab.predict()))
        outs.append(ops.norm(mab.predict_expectations()))
    else:
        q = w.add("query contexts", enc_ctx(assign["q_x"], Q))
        outs.append(ops.norm(mab.predict(q)))
        outs.append(ops.norm(mab.predict_expectations(q)))
    check("predict")
    outs.append(ops.norm(list(mab.arms)))
    return outs, modified


def series_scenarios(ln, nn, seed):
    """Series disambiguation: (label, outputs with Series, outputs with the equivalent lists)."""
    if A.context_free(ln, nn):
        return []
    out = []
    lp, npol, _ = policy_objects(ln, nn)
    # single feature column
    x1 = [[0.1], [1.3], [2.2], [3.7], [1.4], [2.9]]

    def run1(as_series):
        m = MAB([1, 2], lp, npol, seed=seed)
        m.fit(list(FIT_D), list(FIT_R), pd.Series([v[0] for v in x1]) if as_series else [list(v) for v in x1])
        m.partial_fit([2, 1], [1, 0], pd.Series([1.2, 3.3]) if as_series else [[1.2], [3.3]])
        q = pd.Series([0.1, 2.2, 3.1]) if as_series else [[0.1], [2.2], [3.1]]
        return [ops.norm(m.predict(q)), ops.norm(m.predict_expectations(q))]
    out.append(("single feature column", run1))
    # single row

    def run2(as_series):
        m = MAB([1, 2], lp, npol, seed=seed)
        m.fit(list(FIT_D), list(FIT_R), [list(v) for v in FIT_X])
        m.partial_fit([2], [1], pd.Series([1, 1]) if as_series else [[1, 1]])
        q = pd.Series([1, 0]) if as_series else [[1, 0]]
        return [ops.norm(m.predict(q)), ops.norm(m.predict_expectations(q))]
    out.append(("single row", run2))
    return out


def narrow_int_scenarios(ln, nn, seed):
    """Rewards as narrow integer arrays whose per-arm totals leave the range of the dtype: (label, run(dtype))."""
    if ln in ("ts", "tsb"):
        return []
    lp, npol, _ = policy_objects(ln, nn)
    cf = A.context_free(ln, nn)
    dec = [1, 2, 1, 2, 1, 2, 1, 2]
    rew = [100, 90, 110, 120, 100, 80, 90, 100]          # arm totals 400 / 390: beyond int8 and uint8

    def run(dtype):
        m = MAB([1, 2], lp, npol, seed=seed)
        r = list(rew) if dtype is None else np.asarray(rew, dtype=dtype)
        x = [[float(i % 3), float(i % 2)] for i in range(8)]
        if cf:
            m.fit(list(dec), r)
            m.partial_fit([1, 2], [100, 100] if dtype is None else np.asarray([100, 100], dtype=dtype))
            return [ops.norm(m.predict()), ops.norm(m.predict_expectations())]
        m.fit(list(dec), r, x)
        m.partial_fit([1, 2], [100, 100] if dtype is None else np.asarray([100, 100], dtype=dtype), [[1.0, 1.0], [0.0, 1.0]])
        q = [[0.0, 0.0], [1.0, 1.0]]
        return [ops.norm(m.predict(q)), ops.norm(m.predict_expectations(q))]
    return [("int8", lambda: run(np.int8)), ("uint8", lambda: run(np.uint8)), ("int16", lambda: run(np.int16)),
            ("list", lambda: run(None))]


def baseline_assign():
    return {"fit_d": "list", "fit_r": "list_int", "fit_x": "list", "pf_d": "list", "pf_r": "list_int", "pf_x": "list",
            "q_x": "list"}


def assignments(dev, cf):
    base = baseline_assign()
    axes = [(a, encs) for a, encs in AXES if not (cf and a.endswith("_x"))]
    yield dict(base)
    for k in range(1, dev + 1):
        for combo in itertools.combinations(axes, k):
            for choice in itertools.product(*[[e for e in encs if e != base[a]] for a, encs in combo]):
                asg = dict(base)
                for (a, _), e in zip(combo, choice):
                    asg[a] = e
                yield asg


def judge(ln, nn, seed, assign, base_out=None, labels="int"):
    tol = 1e-9 if ln in A.LINEAR_LPS + A.SCALED_LPS else 0.0
    if base_out is None:
        base_out, _ = scenario(ln, nn, seed, dict(baseline_assign(), _float=assign.get("_float", False)), labels)
    try:
        outs, modified = scenario(ln, nn, seed, assign, labels)
    except Exception as e:                                    # noqa: BLE001
        return ["scenario with encodings %r raised %s: %s" % (assign, type(e).__name__, str(e)[:150])]
    msgs = list(modified)
    if not ops.same(outs, base_out, rtol=tol, atol=tol):
        msgs.append("encodings %r give %r, all-lists baseline gives %r" % (
            {k: v for k, v in assign.items() if v != baseline_assign().get(k)}, outs, base_out))
    return msgs


def run_shard(shard):
    ln, nn, seed = shard["ln"], shard["nn"], shard["seed"]
    cf = A.context_free(ln, nn)
    acc = report.Acc(ID, replay, shard)
    base_out, base_mod = scenario(ln, nn, seed, baseline_assign())
    for asg in assignments(shard["dev"], cf):
        msgs = judge(ln, nn, seed, asg, base_out)
        dev = {k: v for k, v in asg.items() if v != baseline_assign()[k]}
        acc.traces += 1
        ops.COUNTERS["transitions"] += 9
        key = (ln, nn, str(sorted(dev.items())))
        acc.state(key)
        acc.case(key if dev else None)
        acc.outcome(base_out)
        if len(acc.samples) < 2 and len(dev) == 1:
            acc.sample({"combination": [ln, nn], "deviation_from_all_lists": dev})
        for m in msgs[:2]:
            acc.violation("%s/%s %s" % (ln, nn, ",".join("%s=%s" % kv for kv in sorted(dev.items())) or m.split(" ")[0]),
                          {"ln": ln, "nn": nn, "seed": seed, "assign": asg}, m)
    # float-valued contexts (non-dyadic), incl. read-only buffers: one deviating context axis at a time
    if not cf:
        fb = dict(baseline_assign(), _float=True)
        try:
            base_f, mod_f = scenario(ln, nn, seed, fb)
        except Exception as e:                                # noqa: BLE001
            base_f, mod_f = None, ["float baseline raised %s" % type(e).__name__]
        for m in mod_f[:2]:
            acc.violation("%s/%s float baseline" % (ln, nn), {"ln": ln, "nn": nn, "seed": seed, "assign": fb}, m)
        for axis in ("fit_x", "pf_x", "q_x"):
            for e in FLOAT_CTX_ENC[1:]:
                asg = dict(fb)
                asg[axis] = e
                msgs = judge(ln, nn, seed, asg, base_f) if base_f is not None else []
                acc.traces += 1
                ops.COUNTERS["transitions"] += 9
                key = (ln, nn, "float", axis, e)
                acc.state(key)
                acc.case(key)
                for m in msgs[:2]:
                    acc.violation("%s/%s float %s=%s" % (ln, nn, axis, e), {"ln": ln, "nn": nn, "seed": seed, "assign": asg}, m)
    # str arm labels: decision containers hold strings (one deviating axis at a time)
    base_s, _ = scenario(ln, nn, seed, baseline_assign(), "str")
    for asg in assignments(1, cf):
        dev = {k: v for k, v in asg.items() if v != baseline_assign()[k]}
        msgs = judge(ln, nn, seed, asg, base_s, "str")
        acc.traces += 1
        ops.COUNTERS["transitions"] += 5
        key = (ln, nn, "str", str(sorted(dev.items())))
        acc.state(key)
        acc.case(key if dev else None)
        for m in msgs[:2]:
            acc.violation("%s/%s str-labels %s" % (ln, nn, ",".join("%s=%s" % kv for kv in sorted(dev.items()))),
                          {"ln": ln, "nn": nn, "seed": seed, "assign": asg, "labels": "str"}, m)
    # narrow integer reward arrays
    runs = narrow_int_scenarios(ln, nn, seed)
    if runs:
        try:
            ref = runs[-1][1]()
        except Exception as e:                                # noqa: BLE001
            ref = {"__exc__": type(e).__name__}
        for label, run in runs[:-1]:
            try:
                got = run()
            except Exception as e:                            # noqa: BLE001
                got = {"__exc__": type(e).__name__}
            acc.traces += 1
            acc.case((ln, nn, "narrow", label))
            acc.state((ln, nn, "narrow", label))
            t = 1e-9 if ln in A.LINEAR_LPS + A.SCALED_LPS else 1e-12
            if not ops.same(got, ref, rtol=t, atol=t):
                acc.violation("%s/%s rewards as %s array" % (ln, nn, label), {"ln": ln, "nn": nn, "seed": seed, "narrow": label},
                              "rewards as %s array give %r, as a list %r" % (label, got, ref))
    tol = 1e-9 if ln in A.LINEAR_LPS + A.SCALED_LPS else 0.0
    for label, run in series_scenarios(ln, nn, seed):
        try:
            a, b = run(True), run(False)
        except Exception as e:                                # noqa: BLE001
            acc.violation("%s/%s series %s" % (ln, nn, label), {"ln": ln, "nn": nn, "seed": seed, "series": label},
                          "Series scenario '%s' raised %s: %s" % (label, type(e).__name__, str(e)[:150]))
            continue
        acc.traces += 1
        acc.case((ln, nn, "series", label))
        acc.state((ln, nn, "series", label))
        if not ops.same(a, b, rtol=tol, atol=tol):
            acc.violation("%s/%s series %s" % (ln, nn, label), {"ln": ln, "nn": nn, "seed": seed, "series": label},
                          "Series contexts (%s) give %r, the equivalent lists give %r" % (label, a, b))
    return acc.result()


def replay(w):
    if "narrow" in w:
        runs = dict(narrow_int_scenarios(w["ln"], w["nn"], w["seed"]))
        t = 1e-9 if w["ln"] in A.LINEAR_LPS + A.SCALED_LPS else 1e-12
        try:
            a, b = runs[w["narrow"]](), runs["list"]()
        except Exception as e:                                # noqa: BLE001
            return ["raised %s" % type(e).__name__]
        return [] if ops.same(a, b, rtol=t, atol=t) else ["%s array %r != list %r" % (w["narrow"], a, b)]
    if "series" in w:
        for label, run in series_scenarios(w["ln"], w["nn"], w["seed"]):
            if label == w["series"]:
                tol = 1e-9 if w["ln"] in A.LINEAR_LPS + A.SCALED_LPS else 0.0
                try:
                    a, b = run(True), run(False)
                except Exception as e:                        # noqa: BLE001
                    return ["raised %s" % type(e).__name__]
                return [] if ops.same(a, b, rtol=tol, atol=tol) else ["Series %r != lists %r" % (a, b)]
        return []
    return judge(w["ln"], w["nn"], w["seed"], w["assign"], labels=w.get("labels", "int"))
