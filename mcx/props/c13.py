"""C13 - warm_start only initialises cold arms, from their nearest trained arm.

Explicit-state search: for every warm-start-capable policy, every assignment of feature
vectors (zero and duplicate vectors included) to three arms, and every non-empty proper subset
of trained arms, a BFS over {warm_start(F, q) for five quantiles, partial_fit, fit, add_arm,
remove_arm}.  In every state a three-valued status machine must predict cold_arms; every
warm_start transition is judged against the documented rule with distances from scipy."""
from .. import env  # noqa: F401
import copy
import itertools
import math

import numpy as np
from scipy.spatial.distance import cdist

from .. import alphabet as A, canon, ops, report

ID = "C13"
VECS = [[0, 0], [1, 0], [0, 1], [1, 1], [2, 0]]
QUANTILES = [0.0, 0.25, 0.5, 0.75, 1.0]
POLICIES = ["eg0", "ucb", "sm", "ts", "pop", "lg", "lucb", "lts1", "lg_s", "lucb_s"]
# linear policies with scale=True: the learned state of an arm then includes its fitted StandardScaler
SCALED = {"lg_s": ["LinGreedy", {"epsilon": 0, "l2_lambda": 1, "scale": True}],
          "lucb_s": ["LinUCB", {"alpha": 1, "l2_lambda": 1, "scale": True}]}
ARMS = [0, 1, 2]          # label 0 on purpose: a truth-value test on a label or on 'warm_started_by' shows
NEW_ARM = 9


def meta(tier, seed):
    return {
        "rule": "a transition is non-trivial iff it is a warm_start that changes some arm, or any call made after one "
                "(partial_fit after warm start, refit, arm changes); distinct by canonical state digest and operation",
        "oracle": "status machine: cold = arms - observed-since-fit - warm-started (fit resets both sets) must equal "
                  "mab.cold_arms in every state; per warm_start: arms observed since the last fit keep their learned state; "
                  "an arm may leave the cold set only with an exact copy of the learned state of a trained arm at minimal "
                  "cosine distance (ties: any) and only if that distance <= np.quantile(closest distances, q); arms that were "
                  "not cold are untouched; repeating the call changes nothing; warm sets are monotone in q from one state",
        "bounds": {"arms": 3, "feature_vectors": VECS, "quantiles": QUANTILES, "policies": POLICIES,
                   "depth": "2 for all 125 feature assignments" + (", 3 for the 6 assignments of three distinct directions" if tier == "quick" else
                                                                   ", 3 for the 27 assignments over {(1,0),(0,1),(1,1)}")},
        "assumptions": ["scipy cdist(cosine) and np.quantile are trusted for distances and thresholds",
                        "warm_start calls that raise (all feature vectors zero) are counted, C17 judges them"],
    }


def shards(tier, seed):
    out = []
    for ln in POLICIES:
        for sub in range(1, 7):          # bit mask of trained arms: non-empty proper subsets of 3 arms
            out.append({"ln": ln, "sub": sub, "deep": 2 if tier == "quick" else 3, "seed": 131 + seed,
                        "quick": tier == "quick"})
    return out


# ---------------------------------------------------------------- learned state of one arm
def arm_state(mab, arm):
    imp = mab._imp
    name = type(imp).__name__
    if name == "_Linear":
        m = imp.arm_to_model[arm]
        # the whole regression object but its generator: beta, A, A_inv, Xty, hyper-parameters, fitted scaler
        return canon.digest(m, skip_generators=True)
    if name in ("_EpsilonGreedy", "_Popularity"):
        return (float(imp.arm_to_sum[arm]), float(imp.arm_to_count[arm]), float(imp.arm_to_expectation[arm]))
    if name == "_UCB1":
        return (float(imp.arm_to_sum[arm]), float(imp.arm_to_count[arm]), float(imp.arm_to_mean[arm]),
                float(imp.arm_to_expectation[arm]))
    if name == "_Softmax":
        return (float(imp.arm_to_sum[arm]), float(imp.arm_to_count[arm]), float(imp.arm_to_mean[arm]))
    if name == "_ThompsonSampling":
        return (float(imp.arm_to_success_count[arm]), float(imp.arm_to_fail_count[arm]))
    raise TypeError(name)


def states(mab):
    return {a: arm_state(mab, a) for a in mab.arms}


# ---------------------------------------------------------------- documented rule
def cosine(u, v):
    d = cdist(np.asarray([u], dtype=float), np.asarray([v], dtype=float), metric="cosine")[0][0]
    return math.inf if np.isnan(d) else float(d)


def rule(arms, feats, trained, cold, q):
    """-> {cold arm: (allowed source arms, within_threshold)}"""
    closest = []
    for a in arms:
        ds = [cosine(feats[a], feats[b]) for b in arms if b != a]
        if ds and min(ds) != math.inf:
            closest.append(min(ds))
    if not closest:
        return None
    thr = float(np.quantile(closest, q=q))
    out = {}
    for c in cold:
        ds = {t: cosine(feats[c], feats[t]) for t in trained}
        if not ds:
            out[c] = ([], False)
            continue
        dmin = min(ds.values())
        srcs = [t for t, d in ds.items() if d == dmin or abs(d - dmin) <= 1e-12]
        out[c] = (srcs, dmin <= thr + 1e-12 and dmin != math.inf)
    return out


def judge_warm(before, after, feats, q, O, W):
    """before/after: live bandits around one warm_start call.  -> messages"""
    msgs = []
    arms = list(before.arms)
    sb, sa = states(before), states(after)
    cold_b, cold_a = list(before.cold_arms), list(after.cold_arms)
    trained = [a for a in arms if a in O]
    if list(after.arms) != arms:
        return ["warm_start changed the arm list"]
    for a in arms:
        if a not in cold_b and sa[a] != sb[a]:
            kind = "trained" if a in O else "already warm-started"
            msgs.append("warm_start modified %s arm %r: %r -> %r" % (kind, a, sb[a], sa[a]))
    if not set(cold_a) <= set(cold_b):
        msgs.append("cold arms grew: %r -> %r" % (cold_b, cold_a))
    allowed = rule(arms, feats, trained, cold_b, q)
    for c in cold_b:
        left = c not in cold_a
        if not left:
            if sa[c] != sb[c]:
                msgs.append("arm %r is still listed cold but its learned state changed: %r -> %r" % (c, sb[c], sa[c]))
            continue
        srcs, ok = allowed[c] if allowed else ([], False)
        if not srcs or not ok:
            msgs.append("arm %r was warm-started although its closest trained arm %r is beyond the quantile threshold "
                        "(q=%s) or no trained arm exists" % (c, srcs, q))
        elif not any(sa[c] == sb[s] for s in srcs):
            msgs.append("arm %r left the cold set with state %r, which is not a copy of a closest trained arm %r (%r)" % (
                c, sa[c], srcs, [sb[s] for s in srcs]))
    return msgs


# ---------------------------------------------------------------- search
def feats_for(arms, assign):
    f = {a: list(assign[i]) for i, a in enumerate(ARMS)}
    f[NEW_ARM] = [1, 2]
    return {a: f[a] for a in arms}


def enabled(mab, cf, assign):
    arms = list(mab.arms)
    out = []
    fl = [[a, feats_for(arms, assign)[a]] for a in arms]
    for q in QUANTILES:
        out.append(["warm_start", fl, q])
    out.append(["partial_fit", [arms[0]], [1], None if cf else [[1, 0]]])
    out.append(["partial_fit", [arms[-1]], [0], None if cf else [[0, 1]]])
    out.append(["fit", [arms[-1], arms[-1]], [1, 0], None if cf else [[1, 1], [0, 1]]])
    if NEW_ARM not in arms:
        out.append(["add_arm", NEW_ARM])
    if len(arms) > 2:
        out.append(["remove_arm", arms[0]])
    return out


def machine(O, W, arms, op):
    O, W = set(O), set(W)
    if op[0] == "fit":
        O, W = set(op[1]), set()
    elif op[0] == "partial_fit":
        O |= set(op[1])
    elif op[0] == "remove_arm":
        O.discard(op[1])
        W.discard(op[1])
    return O, W


def step(mab, O, W, op, assign):
    """Apply op to a copy.  -> (new bandit | None, O, W, messages, raised, changed)"""
    m2 = copy.deepcopy(mab)
    try:
        ops.apply(m2, op)
    except Exception as e:                                    # noqa: BLE001
        return None, O, W, [], type(e).__name__, False
    msgs = []
    changed = False
    O2, W2 = machine(O, W, list(mab.arms), op)
    if op[0] == "warm_start":
        feats = {a: f for a, f in op[1]}
        msgs += judge_warm(mab, m2, feats, op[2], O, W)
        newly = set(mab.cold_arms) - set(m2.cold_arms)
        changed = bool(newly)
        W2 = W2 | newly
        # idempotence
        m3 = copy.deepcopy(m2)
        try:
            ops.apply(m3, op, count=False)
            if states(m3) != states(m2) or list(m3.cold_arms) != list(m2.cold_arms):
                msgs.append("repeating warm_start(q=%s) changed the bandit: cold %r -> %r" % (
                    op[2], list(m2.cold_arms), list(m3.cold_arms)))
        except Exception as e:                                # noqa: BLE001
            msgs.append("repeating warm_start raised %s" % type(e).__name__)
    want_cold = [a for a in m2.arms if a not in O2 and a not in W2]
    if list(m2.cold_arms) != want_cold:
        msgs.append("after %s: cold_arms %r, status machine (observed %r, warm %r) gives %r" % (
            op[0], list(m2.cold_arms), sorted(O2), sorted(W2), want_cold))
    return m2, O2, W2, msgs, None, changed


def initial(ln, sub, assign, seed):
    cfg = A.config(SCALED.get(ln, ln), "none", arms=ARMS, seed=seed)
    cf = ops.is_context_free(cfg)
    trained = [a for i, a in enumerate(ARMS) if sub >> i & 1]
    d, r, x = [], [], []
    for i, a in enumerate(trained):
        d += [a, a]
        r += [1, i % 2]
        x += [[1, i], [i, 1]]
    history = [["fit", d, r, None if cf else x]]
    return cfg, cf, trained, history


def run_shard(shard):
    ln, sub, seed = shard["ln"], shard["sub"], shard["seed"]
    acc = report.Acc(ID, replay, shard)
    small = [[1, 0], [0, 1], [1, 1]]
    for assign in itertools.product(VECS, repeat=3):
        depth = shard["deep"] if (all(v in small for v in assign) or shard["deep"] == 2) else 2
        if shard.get("quick") and sorted(assign) == sorted(small):
            depth = 3                   # quick tier: three calls deep for the assignments of three distinct directions
                                        # (second-generation warm starts: warm_start, partial_fit, warm_start)
        cfg, cf, trained, history = initial(ln, sub, assign, seed)
        m0 = ops.run_history(cfg, history)
        frontier = [(m0, set(trained), set(), history, False)]
        seen = {canon.digest(m0)}
        for d in range(depth):
            nxt = []
            for mab, O, W, hist, after_warm in frontier:
                warm_sets = {}
                for op in enabled(mab, cf, assign):
                    m2, O2, W2, msgs, raised, changed = step(mab, O, W, op, assign)
                    if raised:
                        acc.skip("%s raised %s (counted; C17 judges rejected calls)" % (op[0], raised))
                        continue
                    acc.traces += 1
                    dg = canon.digest(m2)
                    key = (ln, sub, str(assign), dg, str(op))
                    acc.case(key if (changed or after_warm) else None)
                    acc.outcome([ops.norm(list(m2.cold_arms)), len(msgs)])
                    if op[0] == "warm_start":
                        warm_sets[op[2]] = set(mab.cold_arms) - set(m2.cold_arms)
                    for msg in msgs[:2]:
                        acc.violation("%s %s %s" % (ln, op[0], msg.split(":")[0][:50]),
                                      {"cfg": cfg, "assign": list(assign), "history": hist, "op": op,
                                       "O": sorted(O), "W": sorted(W)}, msg)
                    if acc.state((str(assign), dg)) and dg not in seen:
                        seen.add(dg)
                        nxt.append((m2, O2, W2, hist + [op], after_warm or changed))
                        if changed and len(acc.samples) < 2:
                            acc.sample({"cfg": cfg, "features": {str(a): f for a, f in feats_for(list(mab.arms), assign).items()},
                                        "history": hist + [op], "cold_before": list(mab.cold_arms),
                                        "cold_after": list(m2.cold_arms)})
                qs = sorted(warm_sets)
                for q1, q2 in zip(qs, qs[1:]):
                    if not warm_sets[q1] <= warm_sets[q2]:
                        acc.violation("%s monotone" % ln, {"cfg": cfg, "assign": list(assign), "history": hist,
                                                           "op": ["monotone", q1, q2], "O": sorted(O), "W": sorted(W)},
                                      "warm set for q=%s %r is not contained in the one for q=%s %r" % (
                                          q1, sorted(warm_sets[q1]), q2, sorted(warm_sets[q2])))
            frontier = nxt
    return acc.result()


def replay(w):
    cfg, assign = w["cfg"], [list(v) for v in w["assign"]]
    mab = ops.run_history(cfg, w["history"])
    O, W = set(w["O"]), set(w["W"])
    op = w["op"]
    if op[0] == "monotone":
        cf = ops.is_context_free(cfg)
        sets = {}
        for o in enabled(mab, cf, assign):
            if o[0] == "warm_start" and o[2] in (op[1], op[2]):
                m2 = copy.deepcopy(mab)
                ops.apply(m2, o)
                sets[o[2]] = set(mab.cold_arms) - set(m2.cold_arms)
        return [] if sets[op[1]] <= sets[op[2]] else ["warm sets not monotone in q"]
    _m2, _O, _W, msgs, raised, _c = step(mab, O, W, op, assign)
    return msgs
