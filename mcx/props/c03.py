"""C03 - Radius and KNearest use exactly the observations in the neighbourhood.

Bounded exhaustive enumeration: every n-tuple of grid points as stored contexts x arm
assignments x every composition into fit + partial_fit* x metric x radius (exact distance
values, boundary included) / k in 1..n x learning policy; queries are all grid points, as one
batch and one by one.  The oracle computes distances in integer arithmetic on the harness's own
copy of the history and trains the library's learning policy from scratch on exactly the
neighbourhood; for KNearest every admissible tie-break is accepted."""
from .. import env  # noqa: F401
import copy
import itertools
import math

import numpy as np

from .. import alphabet as A, ops, report, sched

ID = "C03"

METRICS = ["cityblock", "chebyshev", "sqeuclidean", "euclidean"]
GRIDS = {
    "1d": [[0], [1], [2], [3]],
    "2d6": [[0, 0], [0, 1], [1, 0], [1, 1], [2, 0], [2, 1]],
    "2d9": [[x, y] for x in range(3) for y in range(3)],
    # distances whose ORDER differs between metrics: from (0,0), (2,2) vs (3,0) (cityblock 4 > 3, euclidean 2.83 < 3)
    # and (3,3) vs (4,0) (chebyshev 3 < 4, euclidean 4.24 > 4): a policy that ignores the metric is visible
    "2dm": [[0, 0], [2, 2], [3, 0], [3, 3], [4, 0]],
}
LP_QUICK = ["eg0", "ucb", "lucb"]
LP_QUICK_SHORT = ["sm", "ts"]        # quick tier: tuples of at most two stored rows for these (all of them in the thorough tier)
LP_THOROUGH = ["eg0", "ucb", "lucb", "lg", "sm", "ts", "eg5"]
NO_NHOOD = [None, [1, 0], [0, 1], [0.25, 0.75]]


def meta(tier, seed):
    return {
        "rule": "a case = (policy, metric, radius|k, stored rows, arm assignment, composition, query); non-trivial iff the "
                "query lies exactly on the radius boundary of some stored row (Radius) / the k-th and (k+1)-th "
                "distances tie or the neighbourhood is a proper subset of the stored rows (KNearest) / the neighbourhood "
                "is empty; distinct by the full case",
        "oracle": "integer distance arithmetic (sum|d|, max|d|, sum d^2; euclidean: sum d^2 <= r^2) on the harness's copy "
                  "of the history; expectations must equal the library's own learning policy built fresh and fit on "
                  "exactly those rows (row seed replicated for randomised policies); KNearest: any admissible tie-break; "
                  "empty neighbourhood: all NaN and predict == arms[clone(row seed).choice(k, p)] (never a p=0 arm)",
        "bounds": {"grids": {"quick": ["1d n<=3", "2d6 n<=3 (n=3: 3 arm assignments)", "2dm n<=2"],
                             "thorough": ["1d n<=4", "2d9 n<=3", "2d6 n<=3 (all arm assignments)", "2dm n<=3",
                                          "policies beyond eg0/ucb/lucb: n<=2 on 1d and 2d6"]}[tier],
                   "metrics": METRICS, "radii": "every distance value occurring in the grid (euclidean: math.sqrt of the squared distance), at most 6", "k": "1..n",
                   "policies": (LP_QUICK + ["%s (n<=2 on 1d, 2d6)" % x for x in LP_QUICK_SHORT]) if tier == "quick" else LP_THOROUGH, "rewards": "row i rewarded 2^i (binary i%2 for Thompson)",
                   "earlier_life": "a third of the bandits first live another life (fit on other rows, a query) before the history, "
                                   "get float64 contexts and answer a query between any two training calls",
                   "arm_changes": "a quarter of the bandits remove arm 2, answer a query and add it again before they are judged",
                   "n_jobs": "a third of the bandits answer with n_jobs = 2 (joblib model, default schedule), the others with 1"},
        "assumptions": ["metrics whose distances are irrational on the grid are not checked at the boundary",
                        "the learning policy's own arithmetic is C01/C02's subject; here it is the reference"],
    }


def shards(tier, seed):
    out = []
    lps = LP_QUICK + LP_QUICK_SHORT if tier == "quick" else LP_THOROUGH
    grids = [("1d", 3), ("2d6", 3), ("2dm", 2)] if tier == "quick" else [("1d", 4), ("2d9", 3), ("2d6", 3), ("2dm", 3)]
    for g, nmax in grids:
        for metric in METRICS:
            if g == "1d" and metric in ("chebyshev", "euclidean"):
                continue            # identical to cityblock in one dimension
            if tier == "quick" and metric == "sqeuclidean" and g != "1d":
                continue            # same order as euclidean; thorough tier only
            for kind in ("rad", "knn"):
                for ln in lps:
                    for n in range(1, nmax + 1):
                        if ln not in LP_QUICK and (g in ("2d9", "2dm") or n > 2):
                            continue        # the randomised / further policies: short tuples on the small grids
                        firsts = range(len(GRIDS[g])) if (n == nmax and n >= 3 and g != "1d") else [None]
                        for first in firsts:     # the biggest tuples are split by their first point
                            out.append({"grid": g, "n": n, "metric": metric, "kind": kind, "ln": ln, "seed": 41 + seed,
                                        "tier": tier, "first": first})
    out.sort(key=lambda s: -(len(GRIDS[s["grid"]]) ** (s["n"] - (s["first"] is not None))))
    return out


def dist(metric, a, b):
    """Exact integer 'distance key' and how the radius threshold maps onto it."""
    d = [abs(x - y) for x, y in zip(a, b)]
    if metric == "cityblock":
        return sum(d)
    if metric == "chebyshev":
        return max(d)
    return sum(v * v for v in d)       # sqeuclidean and euclidean (compared through squares)


def radii(metric, grid=None):
    """[(radius passed to the library, integer threshold on dist())]: every distance value that occurs
    between two points of the grid (so every stored row can sit exactly on the boundary), capped at 6 values.
    euclidean: radius = math.sqrt(n) for the squared distance n - the very float cdist computes for that
    distance, so 'on the boundary' is an exact float equality."""
    vals = sorted({dist(metric, a, b) for a in grid for b in grid} - {0}) if grid else [1, 2, 4]
    if len(vals) > 6:
        vals = vals[:3] + vals[-3:]
    if metric == "euclidean":
        return [(math.sqrt(v), v) for v in vals]
    return [(float(v), v) for v in vals]


def assignments(n, tier):
    if n <= 2:
        return [list(p) for p in itertools.product([1, 2], repeat=n)]
    base = [[1, 2] * n, [1, 1, 2, 2] * n, [2] * n]
    return [b[:n] for b in base]


def reward(ln, i):
    if ln in ("ts", "tsb"):
        return i % 2
    # row i is rewarded about 2^i (the mean over a neighbourhood identifies its rows); row 0 carries a Python int and
    # the others fractions, so that a first chunk holding only row 0 is an integer history later chunks must widen
    return 1 if i == 0 else 2 ** i + 0.5


_REF_CACHE = {}


def reference_expectations(ln, rows, q, seed_i):
    key = (ln, repr(rows), repr(q), seed_i)
    if key not in _REF_CACHE:
        if len(_REF_CACHE) > 200000:
            _REF_CACHE.clear()
        _REF_CACHE[key] = _reference_expectations(ln, rows, q, seed_i)
    return _REF_CACHE[key]


def _reference_expectations(ln, rows, q, seed_i):
    """Library's own learning policy, fresh, fit on exactly rows = [(arm, x, r)] -> {arm: value}."""
    cfg = A.config(ln, "none", seed=0)
    ref = ops.build(cfg)
    cf = ops.is_context_free(cfg)
    d = [r[0] for r in rows]
    y = [r[2] for r in rows]
    if cf:
        ref.fit(d, y)
    else:
        ref.fit(d, y, [list(r[1]) for r in rows])
    if seed_i is not None:
        from mabwiser.utils import create_rng
        ref._imp.rng = create_rng(seed=seed_i)
    out = ref._imp.predict_expectations(np.asarray([q]))
    return ops.expectations_dict(ops.norm(out))


def row_seeds(mab, m):
    g = np.random.default_rng(0)
    g.bit_generator.state = copy.deepcopy(mab._rng.rng.bit_generator.state)
    return g.integers(low=np.iinfo(np.int32).max, high=None, size=m)


def judge_query(mab, cfg, ln, kind, metric, param, thr, hist_rows, q, seeds, got_e, got_p, p_vec):
    """One query row.  got_e: normalised expectations dict; got_p: prediction or None.
    -> (message | None, nontrivial flag)"""
    arms = cfg["arms"]
    dists = [dist(metric, r[1], q) for r in hist_rows]
    tol = 1e-9 if ln in A.LINEAR_LPS else 0.0
    e = ops.expectations_dict(got_e)
    if list(e) != arms:
        return "keys %r != arms %r" % (list(e), arms), False
    if kind == "rad":
        idx = [i for i, dv in enumerate(dists) if dv <= thr]
        nontrivial = any(dv == thr for dv in dists) or not idx
        if not idx:
            if not all(v == "nan" for v in e.values()):
                return "empty neighbourhood but expectations %r are not all NaN" % (e,), True
            if got_p is not None:
                g = np.random.default_rng(int(seeds))
                want = arms[g.choice(len(arms), size=1, p=p_vec)[0]]
                if got_p != want:
                    return "empty neighbourhood: predicted %r, the row's generator with p=%r draws %r" % (got_p, p_vec, want), True
                if p_vec is not None and p_vec[arms.index(got_p)] == 0:
                    return "empty neighbourhood: predicted arm %r has probability zero" % (got_p,), True
            return None, True
        cands = [idx]
    else:
        k = param
        srt = sorted(dists)
        dk = srt[k - 1]
        less = [i for i, dv in enumerate(dists) if dv < dk]
        eq = [i for i, dv in enumerate(dists) if dv == dk]
        need = k - len(less)
        cands = [sorted(less + list(t)) for t in itertools.combinations(eq, need)]
        nontrivial = len(cands) > 1 or k < len(dists)
    seed_i = None if ln in A.DETERMINISTIC_LPS else int(seeds)
    wants = []
    for c in cands:
        want = reference_expectations(ln, [hist_rows[i] for i in c], q, seed_i)
        wants.append(want)
        if all(ops.same(e[a], want[a], rtol=tol, atol=tol) for a in arms):
            return None, nontrivial
    return "query %r: expectations %r; the policy trained on the neighbourhood %r gives %r" % (
        q, e, cands[0], wants[0]), nontrivial


def build(cfg, history):
    mab = ops.build(cfg)
    for op in history:
        if op[0].startswith("predict"):
            try:                      # an interposed query may be outside the domain (KNearest with fewer rows than k)
                ops.apply(mab, op)
            except Exception:         # noqa: BLE001
                pass
        else:
            ops.apply(mab, op)
    return mab


def make_cfg(ln, kind, metric, param, p_vec, seed, n_jobs=1):
    if kind == "rad":
        np_ = ["Radius", {"radius": param, "metric": metric, "no_nhood_prob_of_arm": p_vec}]
    else:
        np_ = ["KNearest", {"k": param, "metric": metric}]
    return {"arms": [1, 2], "lp": A.LPS[ln], "np": np_, "seed": seed, "n_jobs": n_jobs, "backend": None}


def judge(cfg, ln, kind, metric, param, thr, p_vec, hist_rows, comp, queries, one_by_one, acc=None, prefit=False,
          readd=False):
    """Full evaluation of one bandit: batch query (+ single-row queries).  -> list of messages."""
    history = []
    if prefit:
        # an earlier life of the same bandit (other rows, one more row than needed, a query): fit must forget it
        d = len(hist_rows[0][1])
        pre = [[9] * d, [8] * d, [7] * d][:max(2, cfg["np"][1].get("k", 1))]
        history.append(["fit", [1, 2, 1][:len(pre)], [5.0, 6.0, 7.0][:len(pre)] if ln not in ("ts", "tsb") else [1, 0, 1][:len(pre)], pre])
        history.append(["predict", [list(queries[0])]])
    for i, (a, b) in enumerate(comp):
        rows = hist_rows[a:b]
        if prefit and i > 0:
            history.append(["predict_expectations", [[float(v) for v in queries[-1]]]])     # a query between training calls
        history.append(["fit" if i == 0 else "partial_fit", [r[0] for r in rows], [r[2] for r in rows],
                        [[float(v) for v in r[1]] if prefit else list(r[1]) for r in rows]])     # float64 contexts there
    if readd:
        # arm 2 is removed, a query is answered, and the arm is added again: the stored observations are still all the
        # rows passed to fit and partial_fit (the arm list is the same as before, so the reference is unchanged)
        history += [["remove_arm", 2], ["predict_expectations", [[float(v) for v in queries[0]]]], ["add_arm", 2]]
    mab = build(cfg, history)
    msgs = []
    seeds = row_seeds(mab, len(queries))
    be = ops.call(copy.deepcopy(mab), "predict_expectations", queries)
    # predictions are only judged for empty neighbourhoods (arg-max is C09's subject)
    need_p = kind == "rad" and any(all(dist(metric, r[1], q) > thr for r in hist_rows) for q in queries)
    bp = ops.call(copy.deepcopy(mab), "predict", queries) if need_p else [None] * len(queries)
    if ops.is_exc(be) or ops.is_exc(bp):
        return ["batch query raised %r / %r" % (be, bp)], history
    if len(queries) == 1:
        be, bp = [be], [bp] if need_p else bp
    for i, q in enumerate(queries):
        msg, nt = judge_query(mab, cfg, ln, kind, metric, param, thr, hist_rows, q, seeds[i], be[i], bp[i], p_vec)
        if acc is not None:
            acc.case((str(cfg["lp"]), str(cfg["np"]), str(history), i) if nt else None)
        if msg:
            msgs.append("batch row %d: %s" % (i, msg))
            break
    if one_by_one and not msgs:
        for i, q in enumerate(queries):
            s1 = row_seeds(mab, 1)
            e1 = ops.call(copy.deepcopy(mab), "predict_expectations", [q])
            empty = kind == "rad" and all(dist(metric, r[1], q) > thr for r in hist_rows)
            p1 = ops.call(copy.deepcopy(mab), "predict", [q]) if empty else None
            if ops.is_exc(e1) or ops.is_exc(p1):
                msgs.append("single-row query %r raised" % (q,))
                break
            msg, _nt = judge_query(mab, cfg, ln, kind, metric, param, thr, hist_rows, q, s1[0], e1, p1, p_vec)
            if msg:
                msgs.append("single row: %s" % msg)
                break
    if acc is not None:
        acc.outcome(be)
    return msgs, history


def comps_for(n, tier):
    comps = A.compositions(n)
    if tier == "quick" and n >= 3:          # every composition is C06's subject; here: single fit, 1+rest, all singletons
        comps = [c for c in comps if len(c) in (1, n) or (len(c) == 2 and c[0] == (0, 1))]
    return comps


def run_shard(shard):
    with sched.model():                       # joblib model: one job runs inline, two jobs as isolated tasks
        return _run_shard(shard)


def _run_shard(shard):
    g, n, metric, kind, ln, tier = shard["grid"], shard["n"], shard["metric"], shard["kind"], shard["ln"], shard["tier"]
    grid = GRIDS[g]
    acc = report.Acc(ID, replay, shard)
    params = radii(metric, grid) if kind == "rad" else [(k, None) for k in range(1, n + 1)]
    # queries: every grid point plus half-integer points (fractional queries against an integer history; all
    # distances stay exactly representable)
    qgrid = list(grid) + [[v + 0.5 for v in grid[0]], [v - 0.5 for v in grid[-1]]]
    comps = comps_for(n, tier)
    for pts in itertools.product(grid, repeat=n):
        if shard.get("first") is not None and pts[0] != grid[shard["first"]]:
            continue
        asgs = assignments(n, tier)
        if tier == "thorough" and g == "2d6" and n == 3:
            asgs = [list(p) for p in itertools.product([1, 2], repeat=n)]
        for asg in asgs:
            hist_rows = [(asg[i], list(pts[i]), reward(ln, i)) for i in range(n)]
            for ci, comp in enumerate(comps):
                for pi, (param, thr) in enumerate(params):
                    # the empty-neighbourhood distribution alphabet rotates with the case index (all four values
                    # meet every radius and composition over the enumeration)
                    p_vec = NO_NHOOD[(ci + pi + sum(pts[0])) % 4] if kind == "rad" else None
                    # a third of the bandits partition their query batches over two jobs (joblib model, default
                    # schedule): the neighbourhood of a row must not depend on the chunk it lands in
                    cfg = make_cfg(ln, kind, metric, param, p_vec, shard["seed"], 2 if (ci + pi + len(pts)) % 3 == 1 else 1)
                    one = ci == 0 and pi == 0  # single-row queries once per stored set
                    prefit = (ci + pi + len(pts)) % 3 == 0
                    readd = (ci + pi + sum(pts[-1])) % 4 == 1
                    msgs, history = judge(cfg, ln, kind, metric, param, thr, p_vec, hist_rows, comp, qgrid, one, acc, prefit,
                                          readd)
                    acc.traces += 1
                    acc.state((ln, kind, metric, str(param), str(hist_rows), ci))
                    if msgs:
                        acc.violation("%s/%s %s %s=%s comp=%d" % (ln, kind, metric, "r" if kind == "rad" else "k", param, len(comp)),
                                      {"cfg": cfg, "ln": ln, "kind": kind, "metric": metric, "param": param, "thr": thr,
                                       "p_vec": p_vec, "rows": hist_rows, "comp": comp, "queries": qgrid, "prefit": prefit,
                                       "readd": readd},
                                      msgs[0])
                    elif n >= 2 and ci == 1 and len(acc.samples) < 2:
                        acc.sample({"cfg": cfg, "history": history, "queries": grid})
    return acc.result()


def replay(w):
    rows = [(r[0], r[1], r[2]) for r in w["rows"]]
    comp = [tuple(c) for c in w["comp"]]
    msgs, _ = judge(w["cfg"], w["ln"], w["kind"], w["metric"], w["param"], w["thr"], w["p_vec"], rows, comp,
                    w["queries"], True, prefit=w.get("prefit", False), readd=w.get("readd", False))
    return msgs
