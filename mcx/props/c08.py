"""C08 - outputs always range over exactly the current arms, one result per context.

Explicit-state BFS (mcx.statespace) from the unfitted bandit over {fit, partial_fit, add_arm,
remove_arm (incl. re-adding), warm_start}; in every fitted state predict and
predict_expectations are called on deep copies with no contexts / 1 / 2 / 3 rows; shapes,
membership, key order, label types and row order are checked."""
from .. import env  # noqa: F401
import copy
import math

import numpy as np

from .. import alphabet as A, ops, report, sched, statespace as S

ID = "C08"


def meta(tier, seed):
    return {
        "rule": "a case = (combination, label type, n_jobs, state, query size); non-trivial iff the history reaching "
                "the state contains an arm change (add_arm / remove_arm) — then the current arm list differs from the "
                "constructor's; distinct by canonical state digest and query size",
        "oracle": "predict: scalar for <=1 row else list of m, every element a member of mab.arms with the label's own "
                  "Python type; predict_expectations: dict (or list of m dicts) whose key list equals mab.arms in order; "
                  "deterministic policies: row i of a batch equals the single-row answer for row i; probe: the bandit "
                  "itself answers queries, its arms then change without changing their number (remove+add in either order), "
                  "and the outputs must again range over exactly the new arm list",
        "bounds": {"depth": "3 (2 for float / mixed labels and for n_jobs=2)" if tier == "quick" else 4, "label_types": ["int", "str", "float", "mixed (numeric arms, then a str arm added)"],
                   "n_jobs": [1, "2 (joblib model: isolated pickled workers, task order)"], "query_rows": ["none", 1, 2, 3]},
        "assumptions": ["KNearest states with fewer stored rows than k are outside the domain (counted as skipped)",
                        "explicit no_nhood_prob_of_arm vectors combined with arm changes are outside the alphabet "
                        "(DESIGN section 7, C08)"],
    }


def shards(tier, seed):
    out = []
    depth = 3 if tier == "quick" else 4
    for ln, nn in A.combos():
        for labels in ("int", "str", "float", "mixed"):
            for n_jobs in (1, 2):
                if n_jobs == 2 and labels != "int" and tier == "quick":
                    continue
                d = depth - 1 if (tier == "quick" and (labels in ("float", "mixed") or n_jobs == 2)) else depth
                out.append({"ln": ln, "nn": nn, "labels": labels, "n_jobs": n_jobs, "depth": d, "seed": 3 + seed})
    return A.heavy_first(out)


def _is_member(x, arms):
    return any(x == a and type(x) is type(a) for a in arms)


def _scalar_ok(v):
    return isinstance(v, (int, float, np.integer, np.floating)) and not isinstance(v, bool)


def _check_expect(e, arms):
    if not isinstance(e, dict):
        return "expectations are %s, not a dict" % type(e).__name__
    keys = list(e.keys())
    if keys != arms or any(type(k) is not type(a) for k, a in zip(keys, arms)):
        return "expectation keys %r != arms %r" % (keys, arms)
    for k, v in e.items():
        if not _scalar_ok(v):
            return "expectation of %r is %r (%s), not a number" % (k, v, type(v).__name__)
    return None


def _eq(a, b):
    if isinstance(a, (float, np.floating)) and isinstance(b, (float, np.floating)) and math.isnan(a) and math.isnan(b):
        return True
    return a == b


def check_state(mab, cfg, ln, cf, model):
    """-> list of (query label, message)."""
    out = []
    arms = list(mab.arms)
    singles = {}
    for qlabel, q in S.query_sets(cf):
        m = 1 if q is None else len(q)
        with model():
            try:
                p = copy.deepcopy(mab).predict(*(() if q is None else (copy.deepcopy(q),)))
                e = copy.deepcopy(mab).predict_expectations(*(() if q is None else (copy.deepcopy(q),)))
            except Exception as ex:                           # noqa: BLE001
                out.append((qlabel, "query raised %s: %s" % (type(ex).__name__, str(ex)[:120])))
                continue
        ops.COUNTERS["observations"] += 2
        if m <= 1:
            if isinstance(p, list):
                out.append((qlabel, "predict returned a list for <= 1 row: %r" % (p,)))
            elif not _is_member(p, arms):
                out.append((qlabel, "predict returned %r (%s), not a current arm of %r" % (p, type(p).__name__, arms)))
            msg = _check_expect(e, arms)
            if msg:
                out.append((qlabel, msg))
        else:
            if not isinstance(p, list) or len(p) != m:
                out.append((qlabel, "predict returned %r for %d rows" % (p, m)))
            else:
                for x in p:
                    if not _is_member(x, arms):
                        out.append((qlabel, "predict returned %r (%s), not a current arm of %r" % (x, type(x).__name__, arms)))
                        break
            if not isinstance(e, list) or len(e) != m:
                out.append((qlabel, "predict_expectations returned %s of length %s for %d rows" % (
                    type(e).__name__, len(e) if hasattr(e, "__len__") else "?", m)))
            else:
                for d in e:
                    msg = _check_expect(d, arms)
                    if msg:
                        out.append((qlabel, msg))
                        break
        # row order (deterministic policies): batch row i == single-row answer for row i
        if ln in A.DETERMINISTIC_LPS and q is not None and not any(l == qlabel for l, _ in out):
            if m == 1:
                singles[0] = (p, e)
            if m == 3:
                for i in range(3):
                    if i not in singles:
                        with model():
                            try:
                                singles[i] = (copy.deepcopy(mab).predict([list(q[i])]),
                                              copy.deepcopy(mab).predict_expectations([list(q[i])]))
                            except Exception:                 # noqa: BLE001
                                singles[i] = None
                    if singles[i] is None:
                        continue
                    sp, se = singles[i]
                    if isinstance(se, dict) and isinstance(e[i], dict):
                        if list(se) != list(e[i]) or not all(_eq(se[k], e[i][k]) for k in se):
                            out.append((qlabel, "row %d of the batch has expectations %r, alone it has %r" % (i, e[i], se)))
                            break
                        has_nan = any(isinstance(v, (float, np.floating)) and math.isnan(v) for v in se.values())
                        if not has_nan and sp != p[i]:
                            out.append((qlabel, "row %d of the batch predicts %r, alone it predicts %r" % (i, p[i], sp)))
                            break
    return out


def probe_after_queries(mab, cf, labels, model):
    """The bandit itself answers queries, then its arms change without changing their number, then it is
    queried again: anything a prediction left behind (label caches, ...) must not leak into the outputs."""
    out = []
    arms = list(mab.arms)
    new = S.LABELS[labels][1] if S.LABELS[labels][1] not in arms else None
    if new is None or len(arms) < 2:
        return out
    q = None if cf else [[0, 0], [1, 1], [2, 2]]
    for seq in ([["remove_arm", arms[0]], ["add_arm", new]], [["add_arm", new], ["remove_arm", arms[0]]],
                [["remove_arm", arms[-1]], ["add_arm", new]]):
        m = copy.deepcopy(mab)
        with model():
            try:
                m.predict(*(() if q is None else (copy.deepcopy(q),)))
                m.predict_expectations(*(() if q is None else (copy.deepcopy(q),)))
                for op in seq:
                    ops.apply(m, op)
                p = m.predict(*(() if q is None else (copy.deepcopy(q),)))
                e = m.predict_expectations(*(() if q is None else (copy.deepcopy(q),)))
            except Exception as ex:                           # noqa: BLE001
                out.append(("probe", "query / arm change sequence %r raised %s" % ([o[0] for o in seq], type(ex).__name__)))
                continue
        now = list(m.arms)
        ps = p if isinstance(p, list) else [p]
        es = e if isinstance(e, list) else [e]
        bad = [x for x in ps if not _is_member(x, now)]
        if bad:
            out.append(("probe", "after queries and %r predict returned %r, not a current arm of %r" % (
                [o[0] + "(%r)" % (o[1],) for o in seq], bad[0], now)))
        for d in es:
            msg = _check_expect(d, now)
            if msg:
                out.append(("probe", "after queries and %r: %s" % ([o[0] for o in seq], msg)))
                break
    return out


def _model(n_jobs):
    if n_jobs == 1:
        import contextlib
        return contextlib.nullcontext
    return sched.model


def run_shard(shard):
    ln, nn, labels = shard["ln"], shard["nn"], shard["labels"]
    cfg = A.config(ln, nn, arms=S.initial_arms(labels), seed=shard["seed"], n_jobs=shard["n_jobs"])
    cf = ops.is_context_free(cfg)
    acc = report.Acc(ID, replay, shard)
    model = _model(shard["n_jobs"])

    def visit(mab, hist, removed):
        if not S.fitted(mab):
            return
        if S.knn_short(mab):
            acc.skip("KNearest state with fewer stored rows than k")
            return
        acc.traces += 1
        changed = any(o[0] in ("add_arm", "remove_arm") for o in hist)
        bad = check_state(mab, cfg, ln, cf, model)
        if not bad:
            bad = probe_after_queries(mab, cf, labels, model)
        for ql, _q in S.query_sets(cf):
            acc.case(("%s/%s/%s/%d" % (ln, nn, labels, shard["n_jobs"]), tuple(map(str, hist)), ql) if changed else None)
        acc.outcome([ops.norm(list(mab.arms)), len(bad)])
        if changed and len(hist) <= 3:
            acc.sample({"cfg": cfg, "history": hist, "queries": "none/1/2/3 rows"})
        for ql, msg in bad:
            acc.violation("%s/%s %s %s: %s" % (ln, nn, labels, ql, msg.split(":")[0][:50]),
                          {"cfg": cfg, "ln": ln, "history": hist, "labels": labels}, "%s: %s" % (ql, msg))

    S.explore(cfg, labels, shard["depth"], acc, visit, model=model if shard["n_jobs"] > 1 else None, query=True)
    return acc.result()


def replay(w):
    cfg, ln = w["cfg"], w["ln"]
    model = _model(cfg.get("n_jobs", 1))
    mab = ops.build(cfg)
    for op in w["history"]:
        with model():
            ops.apply(mab, op)
    cf = ops.is_context_free(cfg)
    labels = w.get("labels") or ("int" if isinstance(cfg["arms"][0], int) else "str" if isinstance(cfg["arms"][0], str) else "float")
    return ["%s: %s" % x for x in (check_state(mab, cfg, ln, cf, model) or probe_after_queries(mab, cf, labels, model))]
