"""C12 - Clusters and TreeBandit condition on exactly the query's cell.

Bounded exhaustive enumeration of stored-row tuples over a 5-point grid x compositions into fit +
partial_fit* x arm-change variants x cluster / tree settings x learning policies.  Cell membership
is read from the fitted scikit-learn object (trusted) and applied to the harness's own copy of
the history; the expectations must equal the library's learning policy trained from scratch on
exactly the rows of the query's cell (per arm and leaf for TreeBandit)."""
from .. import env  # noqa: F401
import copy
import itertools

import numpy as np

from .. import alphabet as A, ops, report
from .c03 import row_seeds

ID = "C12"
P5 = [[0, 0], [0, 2], [2, 0], [2, 2], [1, 1]]
QGRID = [[0, 0], [0, 2], [2, 0], [2, 2], [1, 1], [0, 1], [2, 1], [1, 0],
         [0.9, 0.8], [1.7, 0.4], [0.4, 1.6]]      # fractional queries against an integer history
CLU = [("c2", 2, False), ("c2mb", 2, True), ("c3", 3, False)]
TREES = [("default", {}), ("depth1", {"max_depth": 1}), ("leaf2", {"min_samples_leaf": 2})]


def meta(tier, seed):
    return {
        "rule": "a case = (setting, policy, stored tuple, composition, variant, query); non-trivial iff the query's cell "
                "holds a non-empty proper subset of the stored rows (for TreeBandit: of that arm's rows) or the history "
                "has >= 2 training calls or an arm change; distinct by the full case",
        "oracle": "Clusters: rows i with kmeans.labels_[i] == kmeans.predict(q) -> expectations of the library's learning "
                  "policy (current arm list) fit on exactly those rows; TreeBandit: per arm, rewards of that arm's rows "
                  "whose arm_to_tree[arm].apply leaf equals the query's leaf -> statistic of a one-arm policy on them, 0 "
                  "for an arm without data; row seed replicated for randomised policies",
        "bounds": {"rows": "n <= %d over %r%s" % (4 if tier == "quick" else 5, P5, " (n = 4: at most two training calls, no remove variant)" if tier == "quick" else ""), "cluster_settings": [c[0] for c in CLU],
                   "tree_parameters": [t[1] for t in TREES], "variants": ["plain", "add_arm(3) after the first call",
                                                                          "remove_arm(2) after the first call",
                                                                          "query, then fit again on arm 1's rows only"],
                   "policies": {"clusters": ["eg0", "ucb", "lucb"] + ([] if tier == "quick" else ["ts", "sm"]),
                                "tree": ["eg0", "ucb"] + ([] if tier == "quick" else ["ts"])},
                   "n_jobs": "1; additionally 2 (joblib model, default schedule) for default trees x {eg0, ucb} and "
                             "KMeans(2) x eg0 with n <= %d" % (3 if tier == "quick" else 4)},
        "assumptions": ["scikit-learn is trusted for cell membership (labels_, predict, apply)",
                        "queries whose two nearest centroids are within 1e-6 (relative) are skipped and counted: the "
                        "winner of such a tie is decided inside scikit-learn's kernel"],
    }


def shards(tier, seed):
    out = []
    nmax = 4 if tier == "quick" else 5
    for name, k, mb in CLU:
        for ln in (["eg0", "ucb", "lucb"] if tier == "quick" else ["eg0", "ucb", "lucb", "ts", "sm"]):
            for first in range(len(P5)):
                out.append({"kind": "clu", "setting": name, "k": k, "mb": mb, "ln": ln, "nmax": nmax, "first": first,
                            "seed": 141 + seed, "quick": tier == "quick"})
    for name, params in TREES:
        for ln in (["eg0", "ucb"] if tier == "quick" else ["eg0", "ucb", "ts"]):
            for first in range(len(P5)):
                out.append({"kind": "tree", "setting": name, "params": params, "ln": ln, "nmax": nmax, "first": first,
                            "seed": 141 + seed, "quick": tier == "quick"})
    # the same question with the query batch partitioned over two jobs (joblib model, default schedule): every row
    # must still be conditioned on its own cell whatever chunk it lands in
    for first in range(len(P5)):
        for ln in (["eg0"] if tier == "quick" else ["eg0", "ucb"]):
            out.append({"kind": "tree", "setting": "default", "params": {}, "ln": ln, "nmax": 3 if tier == "quick" else 4,
                        "first": first, "seed": 141 + seed, "quick": tier == "quick", "n_jobs": 2})
        out.append({"kind": "clu", "setting": "c2", "k": 2, "mb": False, "ln": "eg0", "nmax": 3 if tier == "quick" else 4,
                    "first": first, "seed": 141 + seed, "quick": tier == "quick", "n_jobs": 2})
    return out


_REF = {}


def reference(ln, arms, rows, q, seed_i):
    """Library's learning policy, fresh, current arm list, fit on rows [(arm, x, r)] -> {arm: value}"""
    key = (ln, repr(arms), repr(rows), repr(q), seed_i)
    if key in _REF:
        return _REF[key]
    if len(_REF) > 200000:
        _REF.clear()
    cfg = A.config(ln, "none", arms=arms, seed=0)
    ref = ops.build(cfg)
    cf = ops.is_context_free(cfg)
    d, y = [r[0] for r in rows], [r[2] for r in rows]
    if cf:
        ref.fit(d, y)
    else:
        ref.fit(d, y, [list(r[1]) for r in rows])
    if seed_i is not None:
        from mabwiser.utils import create_rng
        ref._imp.rng = create_rng(seed=seed_i)
    out = ops.expectations_dict(ops.norm(ref._imp.predict_expectations(np.asarray([q]))))
    _REF[key] = out
    return out


def build_history(pts, variant, comp, ln):
    """-> (ops, rows as stored [(arm, x, r)], final arm list)"""
    n = len(pts)
    asg = [1 + i % 2 for i in range(n)]
    rows = [(asg[i], list(pts[i]), (i % 2) if ln in ("ts",) else float(2 ** i)) for i in range(n)]
    arms = [1, 2]
    oplist = []
    for ci, (a, b) in enumerate(comp):
        chunk = rows[a:b]
        if ci >= 1 and variant == "add":
            chunk = [(3 if j == len(chunk) - 1 and b == n else r[0], r[1], r[2]) for j, r in enumerate(chunk)]
        if ci >= 1 and variant == "remove":
            chunk = [(1, r[1], r[2]) for r in chunk]
        rows[a:b] = chunk
        oplist.append(["fit" if ci == 0 else "partial_fit", [r[0] for r in chunk], [r[2] for r in chunk],
                       [list(r[1]) for r in chunk]])
        if ci == 0 and variant == "add":
            oplist.append(["add_arm", 3])
            arms = [1, 2, 3]
        if ci == 0 and variant == "remove":
            oplist.append(["remove_arm", 2])
            arms = [1]
    if variant == "requery":
        # the bandit answers a query, then is fit again on arm 1's rows only: arm 2 has no observations any more
        kept = [r for r in rows if r[0] == 1]
        oplist.append(["predict_expectations", [list(p) for p in QGRID]])
        oplist.append(["fit", [r[0] for r in kept], [r[2] for r in kept], [list(r[1]) for r in kept]])
        rows = kept
    return oplist, rows, arms


def _jobs(cfg):
    """joblib model (default schedule) when the case asks for more than one job"""
    if cfg.get("n_jobs", 1) > 1:
        from .. import sched
        return sched.model()
    import contextlib
    return contextlib.nullcontext()


def judge_clusters(cfg, ln, oplist, rows, arms, acc=None):
    with _jobs(cfg):
        return _judge_clusters(cfg, ln, oplist, rows, arms, acc)


def judge_tree(cfg, ln, oplist, rows, arms, acc=None):
    with _jobs(cfg):
        return _judge_tree(cfg, ln, oplist, rows, arms, acc)


def _judge_clusters(cfg, ln, oplist, rows, arms, acc=None):
    try:
        mab = ops.run_history(cfg, oplist)
    except Exception:                                         # noqa: BLE001
        return None
    km = mab._imp.kmeans
    labels = list(km.labels_)
    if len(labels) != len(rows):
        return ["k-means holds %d labels for %d stored rows" % (len(labels), len(rows))]
    seeds = row_seeds(mab, len(QGRID))
    out = ops.call(copy.deepcopy(mab), "predict_expectations", QGRID)
    if ops.is_exc(out):
        return ["predict_expectations raised %s" % out["__exc__"]]
    centers = km.cluster_centers_
    tol = 1e-9 if ln in A.LINEAR_LPS else 0.0
    msgs = []
    for qi, q in enumerate(QGRID):
        dist = sorted(float(np.linalg.norm(centers[c] - np.asarray(q, dtype=float))) for c in range(len(centers)))
        if len(dist) > 1 and abs(dist[0] - dist[1]) <= 1e-6 * max(1.0, dist[1]):
            if acc is not None:
                acc.skip("query on a centroid tie")
            continue
        c = int(km.predict(np.asarray([q], dtype=float))[0]) if centers.dtype != np.int64 else int(km.predict(np.asarray([q]))[0])
        cell = [rows[i] for i in range(len(rows)) if labels[i] == c]
        e = ops.expectations_dict(out[qi])
        seed_i = None if ln in A.DETERMINISTIC_LPS else int(seeds[qi])
        want = reference(ln, arms, cell, q, seed_i)
        nontrivial = 0 < len(cell) < len(rows) or len(oplist) > 1
        if acc is not None:
            acc.case((str(cfg), str(oplist), qi) if nontrivial else None)
        if list(e) != arms or not all(ops.same(e[a], want[a], rtol=tol, atol=tol) for a in arms):
            msgs.append("query %r falls in cluster %d holding stored rows %r: expectations %r, the policy trained on that "
                        "cell gives %r" % (q, c, [i for i in range(len(rows)) if labels[i] == c], e, want))
            break
    if acc is not None:
        acc.outcome(out)
    return msgs


def _judge_tree(cfg, ln, oplist, rows, arms, acc=None):
    try:
        mab = ops.run_history(cfg, oplist)
    except Exception:                                         # noqa: BLE001
        return None
    seeds = row_seeds(mab, len(QGRID))
    if ln == "ts":
        # the leaf policies draw from the bandit's main generator (F-C05-a); replay it from a clone, row by row
        g_state = copy.deepcopy(mab._rng.rng.bit_generator.state)
    out = ops.call(copy.deepcopy(mab), "predict_expectations", QGRID)
    if ops.is_exc(out):
        return ["predict_expectations raised %s" % out["__exc__"]]
    imp = mab._imp
    msgs = []
    gen = None
    if ln == "ts":
        gen = np.random.default_rng(0)
        gen.bit_generator.state = g_state
        gen.integers(low=np.iinfo(np.int32).max, high=None, size=len(QGRID))     # the row seeds drawn first
    for qi, q in enumerate(QGRID):
        e = ops.expectations_dict(out[qi])
        if list(e) != arms:
            msgs.append("keys %r != arms %r" % (list(e), arms))
            break
        for a in arms:
            mine = [r for r in rows if r[0] == a]
            if not mine:
                want = 0.0
                nontrivial = False
            else:
                tree = imp.arm_to_tree[a]
                leaves = tree.apply(np.asarray([r[1] for r in mine], dtype=float))
                ql = tree.apply(np.asarray([q], dtype=float))[0]
                cell = [float(r[2]) for r, lf in zip(mine, leaves) if lf == ql]
                nontrivial = 0 < len(cell) < len(mine) or len(oplist) > 1
                if ln == "eg0":
                    want = sum(cell) / len(cell) if cell else 0.0
                elif ln == "ucb":
                    want = (sum(cell) / len(cell) + 1.0 * np.sqrt(2 * np.log(len(cell)) / len(cell))) if cell else 0.0
                else:
                    s = sum(cell)
                    want = float(gen.beta(1 + s, 1 + len(cell) - s, 1)[0])
            if acc is not None:
                acc.case((str(cfg), str(oplist), qi, a) if nontrivial else None)
            if not ops.same(float(e[a]) if e[a] != "nan" else "nan", float(want), rtol=1e-12, atol=1e-12):
                msgs.append("query %r, arm %r: expectation %r; the statistic over that arm's rewards in the query's leaf is %r"
                            % (q, a, e[a], want))
                break
        if msgs:
            break
    if acc is not None:
        acc.outcome(out)
    return msgs


def run_shard(shard):
    ln, kind = shard["ln"], shard["kind"]
    acc = report.Acc(ID, replay, shard)
    if kind == "clu":
        cfg = A.config(ln, ["Clusters", {"n_clusters": shard["k"], "is_minibatch": shard["mb"]}], seed=shard["seed"],
                       n_jobs=shard.get("n_jobs", 1))
    else:
        cfg = A.config(ln, ["TreeBandit", {"tree_parameters": shard["params"]}], seed=shard["seed"],
                       n_jobs=shard.get("n_jobs", 1))
    judge = judge_clusters if kind == "clu" else judge_tree
    for n in range(2, shard["nmax"] + 1):
        if n == 5 and (kind == "clu" and shard["setting"] != "c2" or ln not in ("eg0", "ucb")):
            continue
        if shard.get("quick") and n == 4 and kind == "clu" and (shard["setting"] != "c2" or ln == "lucb"):
            continue                    # quick tier: 4-row tuples for KMeans(2) with the count/sum policies and for the trees
        for pts in itertools.product(P5, repeat=n):
            if pts[0] != P5[shard["first"]]:
                continue
            for comp in A.compositions(n):
                if shard.get("quick") and n == 4 and len(comp) > 2:
                    continue            # quick tier: the longest tuples with at most two training calls
                if n == 5 and len(comp) > 2:
                    continue            # thorough tier: 5-row tuples with at most two training calls
                for variant in ("plain", "add", "remove", "requery"):
                    if variant in ("add", "remove") and len(comp) < 2:
                        continue
                    if variant == "requery" and (len(comp) > 1 or n < 3):
                        continue
                    if shard.get("quick") and n == 4 and variant == "remove":
                        continue
                    if n == 5 and variant != "plain":
                        continue
                    oplist, rows, arms = build_history(pts, variant, comp, ln)
                    c = copy.deepcopy(cfg)
                    msgs = judge(c, ln, oplist, rows, arms, acc)
                    if msgs is None:
                        acc.skip("history not trainable (fewer rows than clusters in the first call)")
                        continue
                    acc.traces += 1
                    acc.state((kind, shard["setting"], ln, str(oplist)))
                    if msgs:
                        acc.violation("%s %s %s %s chunks=%d" % (kind, shard["setting"], ln, variant, len(comp)),
                                      {"cfg": c, "ln": ln, "kind": kind, "history": oplist,
                                       "rows": rows, "arms": arms}, msgs[0])
                    elif variant == "add" and n == 3 and len(acc.samples) < 2:
                        acc.sample({"cfg": c, "history": oplist, "queries": QGRID})
    return acc.result()


def replay(w):
    rows = [(r[0], r[1], r[2]) for r in w["rows"]]
    judge = judge_clusters if w["kind"] == "clu" else judge_tree
    return judge(w["cfg"], w["ln"], w["history"], rows, w["arms"]) or []
