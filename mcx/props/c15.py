"""C15 - the Simulator reports what the public API would have produced.

Bounded exhaustive enumeration: every policy combination (singly) and ordered pairs of
Radius/KNearest bandits with different metrics x data sets x test_size x ordered/random split
x every batch size 0..|test| x is_quick.  Each simulation is replayed on deep copies taken
before the Simulator was constructed, through the public API with the same split and protocol."""
from .. import env  # noqa: F401

from .. import alphabet as A, ops, report, simrun

ID = "C15"
DET = ("eg0", "ucb", "lg", "lucb")


def meta(tier, seed):
    return {
        "rule": "a case = (bandit list, data set, test_size, is_ordered, batch_size, is_quick); non-trivial iff online "
                "(batch_size > 0) or the bandit is replaced by a simulator re-implementation (Radius/KNearest/LSH) or "
                "two bandits share the simulation; distinct by the full case",
        "oracle": "replay through the public API on a deep copy taken before the Simulator was built: same split "
                  "(recomputed), fit, then per batch predict / expectations / partial_fit; predictions identical; "
                  "expectations identical for deterministic policies ({} == all-NaN for an empty neighbourhood)",
        "bounds": {"rows": [6, 8] if tier == "quick" else [6, 8, 10], "patterns": ["alt", "blocks", "late2"],
                   "test_size": [0.34, 0.5] if tier == "quick" else [0.25, 0.34, 0.5], "is_ordered": [True, False],
                   "batch_size": "0..|test|", "is_quick": [False, True], "seeds": 1 if tier == "quick" else 2,
                   "pairs": "Radius/KNearest x {euclidean, chebyshev, cityblock} ordered pairs with different metrics",
                   "n_jobs": "1; additionally 2 (joblib model) for seven combinations",
                   "earlier_life": "additionally, for every Radius/KNearest/LSH combination and four others, bandits that "
                                   "were fit on four rows and queried three times before the Simulator is built"},
        "assumptions": ["scikit-learn train_test_split is trusted to be a function of (n, test_size, random_state)"],
    }


def shards(tier, seed):
    out = []
    for ln, nn in A.combos(lints1=True):
        out.append({"kind": "single", "ln": ln, "nn": nn, "tier": tier, "seed": 61 + seed})
    for ln, nn in A.combos(lints1=True):              # bandits that were trained and queried before the simulation
        if nn in ("rad", "knn", "lsh") or (ln, nn) in (("eg5", "none"), ("lts1", "none"), ("eg5", "clu"), ("ts", "tree")):
            if tier == "quick" and ln not in ("eg5", "ucb", "ts", "lts1"):
                continue
            out.append({"kind": "single", "used": True, "ln": ln, "nn": nn, "tier": tier, "seed": 61 + seed})
    # bandits that partition their predictions over two jobs (joblib model, default schedule): test parts and batches
    # whose size is not a multiple of the number of jobs included
    for ln, nn in (("eg0", "rad"), ("ucb", "knn"), ("eg5", "rad"), ("ts", "knn"), ("ucb", "lsh"), ("eg0", "clu"), ("ucb", "tree")):
        out.append({"kind": "single", "n_jobs": 2, "ln": ln, "nn": nn, "tier": tier, "seed": 61 + seed})
    for metric in ("seuclidean", "mahalanobis"):      # distances that depend on which rows are passed to scipy together
        out.append({"kind": "metric", "np": "rad", "metric": metric, "tier": tier, "seed": 61 + seed})
        out.append({"kind": "metric", "np": "knn", "metric": metric, "tier": tier, "seed": 61 + seed})
    out.append({"kind": "decimal", "tier": tier, "seed": 61 + seed})
    out.append({"kind": "nonhood", "tier": tier, "seed": 61 + seed})
    metrics = ["euclidean", "chebyshev", "cityblock"]
    for kind in ("rad", "knn"):
        for m1 in metrics:
            for m2 in metrics:
                if m1 != m2:
                    out.append({"kind": "pair", "np": kind, "m1": m1, "m2": m2, "tier": tier, "seed": 61 + seed})
    return A.heavy_first(out)


def param_space(tier, n, seed):
    sizes = [0.34, 0.5] if tier == "quick" else [0.25, 0.34, 0.5]
    seeds = [seed] if tier == "quick" else [seed, seed + 1]
    for ts in sizes:
        for ordered in (True, False):
            ntest = (n - int(n * (1 - ts))) if ordered else -(-n * ts // 1)
            ntest = int(ntest)
            for sd in seeds:
                for batch in range(0, ntest + 1):
                    for quick in (False, True):
                        yield {"test_size": ts, "is_ordered": ordered, "batch_size": batch, "seed": sd, "is_quick": quick}


def judge(cfgs, lns, dec, rew, X, params, acc=None, used=False):
    try:
        sim, originals = simrun.run_sim(cfgs, dec, rew, X, params, used)
    except ValueError as e:
        if "Batch size" in str(e):
            return None
        return ["Simulator raised %s: %s" % (type(e).__name__, str(e)[:200])]
    except Exception as e:                                    # noqa: BLE001
        return ["Simulator raised %s: %s" % (type(e).__name__, str(e)[:200])]
    n = len(dec)
    tr, te = simrun.split_indices(n, params, sim.test_indices)
    msgs = []
    if list(sim.test_indices) != te:
        return ["test indices %r differ from the recomputed split %r" % (list(sim.test_indices), te)]
    for i, (cfg, ln, orig) in enumerate(zip(cfgs, lns, originals)):
        name = "b%d" % i
        try:
            p, e = simrun.replay_api(orig, cfg, dec, rew, X, tr, te, params["batch_size"])
        except Exception as ex:                               # noqa: BLE001
            msgs.append("public API replay of bandit %d raised %s although the simulation succeeded" % (i, type(ex).__name__))
            continue
        sp = list(sim.bandit_to_predictions[name])
        if acc is not None:
            acc.outcome(ops.norm(sp))
        if ops.norm(sp) != ops.norm(p):
            msgs.append("bandit %d (%s): simulator predictions %r, public API %r (test rows %r)" % (i, cfg["np"], sp, p, te))
        elif ln in DET and not ops.is_context_free(cfg):
            se = sim.bandit_to_expectations[name]
            if not simrun.exp_equal(se, e):
                msgs.append("bandit %d (%s): simulator expectations %r, public API %r" % (i, cfg["np"], se, e))
    return msgs


def run_shard(shard):
    if shard.get("n_jobs", 1) > 1:
        from .. import sched
        with sched.model():
            return _run_shard(shard)
    return _run_shard(shard)


def _run_shard(shard):
    acc = report.Acc(ID, replay, shard)
    tier = shard["tier"]
    if shard["kind"] == "single":
        cfgs = [A.config(shard["ln"], shard["nn"], seed=shard["seed"], n_jobs=shard.get("n_jobs", 1))]
        lns = [shard["ln"]]
        grid = simrun.GRID
    elif shard["kind"] == "nonhood":
        # empty neighbourhoods with a non-uniform distribution over the arms
        cfgs = [A.config("eg0", ["LSHNearest", {"n_dimensions": 12, "n_tables": 1, "no_nhood_prob_of_arm": [0.03, 0.97]}],
                         seed=shard["seed"]),
                A.config("eg0", ["Radius", {"radius": 0.05, "metric": "euclidean", "no_nhood_prob_of_arm": [0.96, 0.04]}],
                         seed=shard["seed"] + 1),
                A.config("ts", ["LSHNearest", {"n_dimensions": 10, "n_tables": 2, "no_nhood_prob_of_arm": [0.9, 0.1]}],
                         seed=shard["seed"] + 2)]
        lns = ["eg0", "eg0", "ts"]
        grid = simrun.FGRID
    elif shard["kind"] == "decimal":
        # distances that differ from the radius / from each other by less than single precision
        cfgs = [A.config("eg0", ["Radius", {"radius": 0.3, "metric": "cityblock"}], seed=shard["seed"]),
                A.config("ucb", ["KNearest", {"k": 3, "metric": "cityblock"}], seed=shard["seed"] + 1),
                A.config("eg0", ["Radius", {"radius": 0.5, "metric": "euclidean"}], seed=shard["seed"] + 2)]
        lns = ["eg0", "ucb", "eg0"]
        grid = simrun.DGRID
    elif shard["kind"] == "metric":
        npol = ["Radius", {"radius": 1.5, "metric": shard["metric"]}] if shard["np"] == "rad" else \
            ["KNearest", {"k": 2, "metric": shard["metric"]}]
        cfgs = [A.config("eg0", npol, seed=shard["seed"]), A.config("ucb", npol, seed=shard["seed"] + 1)]
        lns = ["eg0", "ucb"]
        grid = simrun.FGRID
    else:
        k = shard["np"]
        mk = (lambda m: ["Radius", {"radius": 3.0, "metric": m}]) if k == "rad" else (lambda m: ["KNearest", {"k": 2, "metric": m}])
        cfgs = [A.config("eg0", mk(shard["m1"]), seed=shard["seed"]), A.config("ucb", mk(shard["m2"]), seed=shard["seed"] + 1)]
        lns = ["eg0", "ucb"]
        grid = simrun.MGRID
    rows = ([6, 8] if tier == "quick" else [6, 8, 10])
    if shard["kind"] in ("metric", "decimal", "nonhood"):
        rows = [10, 12]                  # enough rows for a non-singular covariance in every training part
    for n in rows:
        for pattern in ("alt", "blocks", "late2"):
            if tier == "quick" and n == 8 and pattern == "blocks":
                continue
            dec, rew, X = simrun.dataset(n, pattern, grid)
            for params in param_space(tier, n, shard["seed"]):
                msgs = judge(cfgs, lns, dec, rew, X, params, acc, bool(shard.get("used")))
                if msgs is None:
                    acc.skip("batch size rejected by the Simulator (larger than its bound)")
                    continue
                acc.traces += 1
                key = (str(cfgs), n, pattern, str(params), bool(shard.get("used")))
                nbr = any(c["np"] and c["np"][0] in ("Radius", "KNearest", "LSHNearest") for c in cfgs)
                acc.case(key if (params["batch_size"] > 0 or nbr or len(cfgs) > 1) else None)
                acc.state(key)
                if len(acc.samples) < 2 and params["batch_size"] == 2:
                    acc.sample({"cfgs": cfgs, "decisions": dec, "rewards": rew, "contexts": X, "params": params})
                for m in msgs[:1]:
                    acc.violation("%s %s ordered=%s batch=%s quick=%s" % (
                        "+".join("%s/%s" % (l, (c["np"] or ["none"])[0]) for l, c in zip(lns, cfgs)),
                        "pair" if len(cfgs) > 1 else "single", params["is_ordered"], min(params["batch_size"], 2),
                        params["is_quick"]),
                        {"cfgs": cfgs, "lns": lns, "dec": dec, "rew": rew, "X": X, "params": params,
                         "used": bool(shard.get("used"))}, m)
    return acc.result()


def replay(w):
    if any(c.get("n_jobs", 1) > 1 for c in w["cfgs"]):
        from .. import sched
        with sched.model():
            return judge(w["cfgs"], w["lns"], w["dec"], w["rew"], w["X"], w["params"], None, bool(w.get("used"))) or []
    return judge(w["cfgs"], w["lns"], w["dec"], w["rew"], w["X"], w["params"], None, bool(w.get("used"))) or []
