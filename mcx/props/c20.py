"""C20 - results are invariant to arm names and to the order of training rows.

(a) relabelling: a scenario (fit, add_arm, partial_fit, predictions, remove_arm, prediction) is run
    for every policy combination under every relabelling of the alphabet (int -> str, str in
    reversed sort order, float, ints in reversed order); outputs must be the renamed outputs;
(b) all n! permutations of every training set up to n rows for context-free, linear and
    Radius / LSHNearest bandits: expectations unchanged;
(c) reward shift and scale laws on every history (row sequences x compositions) in which every
    arm is observed."""
from .. import env  # noqa: F401
import copy
import itertools

from .. import alphabet as A, ops, report

ID = "C20"
RELABELS = {
    "str": {1: "a", 2: "b", 3: "c"},
    "str_rev": {1: "z", 2: "y", 3: "x"},
    "str_len": {1: "a", 2: "bb", 3: "third"},
    "int_zero": {1: 0, 2: 5, 3: 7},                   # falsy labels: 0, 0.0, ""
    "float_zero": {1: 0.0, 2: 0.5, 3: 1.5},
    "str_empty": {1: "", 2: "b", 3: "c"},          # labels of different lengths; the longest first seen in a partial_fit
    "float": {1: 1.5, 2: 0.5, 3: 0.25},
    "int_rev": {1: 30, 2: 20, 3: 10},
}
X6 = [[0, 0], [0, 1], [1, 0], [1, 1], [2, 0], [0, 2]]
Q = [[0, 0], [1, 1], [2, 2]]
PERM_ROWS = [(1, [0, 0], 1.0), (2, [1, 1], 0.0), (1, [1, 0], 0.5), (2, [0, 1], 2.0), (1, [1, 1], 4.0)]
LAW_ROWS = [(1, [1, 0], 1.0), (2, [0, 1], 0.5), (1, [1, 1], 2.0), (2, [1, 0], -1.0)]
# integer rewards for the narrow-dtype laws: every reward and every shifted reward fits int8, per-arm totals (and sums of
# squares) do not; handed over as an int8 numpy array
LAW_ROWS_I8 = [(1, [1, 0], 100), (2, [0, 1], 90), (1, [1, 1], 60), (2, [1, 0], -100)]


def meta(tier, seed):
    return {
        "rule": "(a) case = (combination, relabelling), non-trivial iff the relabelling changes the label type or the "
                "sorted order of the labels; (b) case = (combination, training set, permutation), non-trivial iff the "
                "permutation is not the identity; (c) case = (law, history, constant); distinct by the full case",
        "oracle": "(a) outputs with labels mapped back are identical (same draws); (b) predict_expectations from a fresh "
                  "bandit with the same seed: bit-equal on the exactly summable alphabet, 1e-9 for linear policies; "
                  "(c) greedy/UCB1 expectations shift by c, Softmax unchanged, LinGreedy scales by c (1e-9)",
        "bounds": {"relabellings": list(RELABELS), "permutation_rows": "n <= 5 of 5 fixed rows",
                   "shift": [-3, 0.5, 10, 2 ** 20, "-2**20 (Softmax)"], "scale": [-2, 0.5, 3],
                   "narrow_dtype_laws": "shift laws of greedy / UCB1 / Softmax again with int8 reward arrays (rewards 100, 90, 60, "
                                        "-100; shifts -20, 20, 27: every value fits int8, the per-arm totals do not)",
                   "long_training_sets": "(d) %r rows x linear policies with scale False / True, alone and under Radius x 7 fixed "
                                         "row orders (reversed, rotations, halves swapped, even-then-odd, stride 7, grouped by "
                                         "arm), 1e-7" % (BIG_N,),
                   "law_histories": "row sequences n <= 3 over 4 rows with "
                   "both arms observed x all compositions"},
        "assumptions": ["KNearest is outside (b): its tie-break may depend on row order, as the statement allows"],
    }


def shards(tier, seed):
    out = []
    for ln, nn in A.combos(lints1=True):
        out.append({"part": "a", "ln": ln, "nn": nn, "seed": 151 + seed})
        if nn in ("none", "rad", "lsh"):
            out.append({"part": "b", "ln": ln, "nn": nn, "nmax": 5, "seed": 151 + seed})
    for law in LAWS:
        out.append({"part": "c", "law": law, "seed": 151 + seed})
    for ln in BIG_LPS:
        for nn in ("none", "rad"):
            for n in BIG_N:
                out.append({"part": "d", "ln": ln, "nn": nn, "n": n, "seed": 151 + seed})
    return A.heavy_first(out)


# ---------------------------------------------------------------- (a)
def relabel_value(outs, mp):
    """Rename labels in the outputs of scenario_a: dictionary keys, predictions and arm lists - never values."""
    def keys(v):
        if isinstance(v, dict) and "__dict__" in v:
            return {"__dict__": [[mp.get(k, k), val] for k, val in v["__dict__"]]}
        if isinstance(v, list):
            return [keys(x) for x in v]
        return v

    def labels(v):
        if isinstance(v, list):
            return [labels(x) for x in v]
        if isinstance(v, dict):
            return v
        return mp.get(v, v)
    kinds = ["exp", "pred", "exp", "pred", "arms", "arms", "exp", "arms"]
    return [keys(o) if k == "exp" else labels(o) for k, o in zip(kinds, outs)]


def scenario_a(ln, nn, seed, mp):
    cf = A.context_free(ln, nn)
    cfg = A.config(ln, nn, arms=[mp[1], mp[2]], seed=seed)
    m = ops.build(cfg)
    d = [mp[a] for a in [1, 2, 1, 2, 1, 2]]
    outs = []
    ops.apply(m, ["fit", d, [1, 0, 1, 1, 0, 1], None if cf else X6])
    outs.append(ops.call(m, "predict_expectations", None if cf else Q))
    ops.apply(m, ["add_arm", mp[3]])
    if nn == "none":
        # the new arm is cold and closest to the first arm: it must be initialised from it whatever the labels are
        ops.apply(m, ["warm_start", [[mp[1], [1.0, 0.0]], [mp[2], [0.0, 1.0]], [mp[3], [1.0, 0.1]]], 1.0])
        outs_ws = [ops.call(m, "predict_expectations", None if cf else Q), ops.norm(list(m.cold_arms))]
    else:
        outs_ws = [ops.call(m, "predict_expectations", None if cf else Q), []]
    ops.apply(m, ["partial_fit", [mp[3], mp[1], mp[3]], [1, 0, 1], None if cf else [[1, 1], [0, 1], [2, 2]]])
    outs.append(ops.call(m, "predict", None if cf else Q))
    outs.append(ops.call(m, "predict_expectations", None if cf else Q[:1]))
    ops.apply(m, ["remove_arm", mp[1]])
    outs.append(ops.call(m, "predict", None if cf else Q))
    outs.append(ops.norm(list(m.arms)))
    outs.append(ops.norm(list(m.cold_arms)))
    outs += outs_ws
    return outs


def keys_to_json(v):
    return v


def part_a(shard, acc):
    ln, nn, seed = shard["ln"], shard["nn"], shard["seed"]
    ident = {1: 1, 2: 2, 3: 3}
    base = scenario_a(ln, nn, seed, ident)
    acc.outcome(base)
    for name, mp in RELABELS.items():
        got = scenario_a(ln, nn, seed, mp)
        want = relabel_value(base, mp)
        acc.traces += 1
        acc.state((ln, nn, name))
        acc.case((ln, nn, name))
        tol = 1e-12 if ln in A.LINEAR_LPS else 0.0
        if not ops.same(got, want, rtol=tol, atol=tol):
            acc.violation("a %s/%s %s" % (ln, nn, name), {"part": "a", "ln": ln, "nn": nn, "seed": seed, "relabel": name},
                          "relabelling %r: outputs %r; renamed outputs of the int-labelled run %r" % (mp, got, want))
    acc.sample({"part": "a", "combination": [ln, nn], "relabellings": {k: {str(a): b for a, b in v.items()} for k, v in RELABELS.items()}})


# ---------------------------------------------------------------- (b)
def fit_rows(ln, nn, seed, rows):
    cfg = A.config(ln, nn, seed=seed)
    cf = ops.is_context_free(cfg)
    m = ops.build(cfg)
    r = [(x[2] if ln not in ("ts", "tsb") else int(x[2] >= 1)) for x in rows]
    if ln == "pop":
        r = [abs(v) for v in r]
    ops.apply(m, ["fit", [x[0] for x in rows], r, None if cf else [list(x[1]) for x in rows]])
    return ops.call(m, "predict_expectations", None if cf else Q)


def feed_rows(ln, nn, seed, rows):
    """The same observations presented one call at a time: fit(first row), partial_fit(each further row)."""
    cfg = A.config(ln, nn, seed=seed)
    cf = ops.is_context_free(cfg)
    m = ops.build(cfg)
    for i, x in enumerate(rows):
        r = x[2] if ln not in ("ts", "tsb") else int(x[2] >= 1)
        if ln == "pop":
            r = abs(r)
        ops.apply(m, ["fit" if i == 0 else "partial_fit", [x[0]], [r], None if cf else [list(x[1])]])
    return ops.call(m, "predict_expectations", None if cf else Q)


def part_b(shard, acc):
    ln, nn, seed = shard["ln"], shard["nn"], shard["seed"]
    tol = 1e-9 if ln in A.LINEAR_LPS else 0.0
    for n in range(2, shard["nmax"] + 1):
        for subset in itertools.combinations(range(len(PERM_ROWS)), n):
            rows = [PERM_ROWS[i] for i in subset]
            base = fit_rows(ln, nn, seed, rows)
            acc.outcome(base)
            for perm in itertools.permutations(range(n)):
                got = fit_rows(ln, nn, seed, [rows[i] for i in perm])
                acc.traces += 1
                key = (ln, nn, subset, perm)
                acc.state(key)
                acc.case(key if list(perm) != list(range(n)) else None)
                if not ops.same(got, base, rtol=tol, atol=tol):
                    acc.violation("b %s/%s" % (ln, nn), {"part": "b", "ln": ln, "nn": nn, "seed": seed,
                                                          "rows": [list(r) for r in rows], "perm": list(perm)},
                                  "rows in order %r give %r; in the original order %r" % (list(perm), got, base))
    # the same, with the observations arriving one call at a time (n <= 4)
    if nn != "lsh":          # LSH draws its hyperplanes in the first fit: row-at-a-time feeding is covered by C06 / C11
        for n in range(2, 5):
            for subset in itertools.combinations(range(len(PERM_ROWS)), n):
                rows = [PERM_ROWS[i] for i in subset]
                base = feed_rows(ln, nn, seed, rows)
                for perm in itertools.permutations(range(n)):
                    if list(perm) == list(range(n)):
                        continue
                    got = feed_rows(ln, nn, seed, [rows[i] for i in perm])
                    acc.traces += 1
                    key = (ln, nn, "one-at-a-time", subset, perm)
                    acc.state(key)
                    acc.case(key)
                    if not ops.same(got, base, rtol=max(tol, 1e-12), atol=max(tol, 1e-12)):
                        acc.violation("b1 %s/%s" % (ln, nn), {"part": "b1", "ln": ln, "nn": nn, "seed": seed,
                                                               "rows": [list(r) for r in rows], "perm": list(perm)},
                                      "rows fed one at a time in order %r give %r; in the original order %r" % (
                                          list(perm), got, base))
    acc.sample({"part": "b", "combination": [ln, nn], "rows": [list(r) for r in PERM_ROWS[:3]], "permutations": "all 3!"})


# ---------------------------------------------------------------- (c)
LAWS = {
    # 2**20: a level at which the differences between the arm means are below 1e-5 of the means themselves
    "shift_eg0": ("eg0", "shift", [-3, 0.5, 10, 2 ** 20]),
    "shift_ucb": ("ucb", "shift", [-3, 0.5, 10, 2 ** 20]),
    "shift_sm": ("sm", "softmax", [-3, 0.5, 10, 2 ** 20, -2 ** 20]),
    "scale_lg": ("lg", "scale", [-2, 0.5, 3]),
    # the same laws with the rewards as int8 arrays (the shifted rewards still fit, the totals do not)
    "shift_eg0_i8": ("eg0", "shift", [-20, 20, 27], "int8"),
    "shift_ucb_i8": ("ucb", "shift", [-20, 20, 27], "int8"),
    "shift_sm_i8": ("sm", "softmax", [-20, 20, 27], "int8"),
}


def law_rows(law):
    return LAW_ROWS_I8 if len(LAWS[law]) > 3 else LAW_ROWS


def law_run(ln, seed, seq, comp, f, dtype=None):
    cfg = A.config(ln, "none", seed=seed)
    cf = ops.is_context_free(cfg)
    m = ops.build(cfg)
    for i, (a, b) in enumerate(comp):
        rows = seq[a:b]
        ops.apply(m, ["fit" if i == 0 else "partial_fit", [r[0] for r in rows], [f(r[2]) for r in rows],
                      None if cf else [list(r[1]) for r in rows]] + ([{"r": dtype}] if dtype else []))
    if ln == "sm":
        return ops.norm(dict(m._imp.arm_to_expectation))        # the soft-max weights (the public call draws from them)
    return ops.call(m, "predict_expectations", None if cf else Q)


def law_check(kind, base, got, c):
    def vals(o):
        if isinstance(o, list):
            return [v for d in o for _k, v in d["__dict__"]]
        return [v for _k, v in o["__dict__"]]
    b, g = vals(base), vals(got)
    if len(b) != len(g):
        return False
    for x, y in zip(b, g):
        want = x + c if kind == "shift" else x if kind == "softmax" else x * c
        if abs(y - want) > 1e-9 * max(1.0, abs(want)):
            return False
    return True


def part_c(shard, acc):
    ln, kind, consts = LAWS[shard["law"]][:3]
    dtype = LAWS[shard["law"]][3] if len(LAWS[shard["law"]]) > 3 else None
    seed = shard["seed"]
    for n in range(2, 4):
        for seq in itertools.product(law_rows(shard["law"]), repeat=n):
            if {r[0] for r in seq} != {1, 2}:
                continue
            for comp in A.compositions(n):
                # every arm observed since the last fit: true for partial_fit chains after one fit
                base = law_run(ln, seed, list(seq), comp, lambda r: r, dtype)
                for c in consts:
                    f = (lambda r, c=c: r * c) if kind == "scale" else (lambda r, c=c: r + c)
                    got = law_run(ln, seed, list(seq), comp, f, dtype)
                    acc.traces += 1
                    key = (shard["law"], str(seq), str(comp), c)
                    acc.state(key)
                    acc.case(key)
                    acc.outcome(got)
                    if ops.is_exc(got) or ops.is_exc(base) or not law_check(kind, base, got, c):
                        acc.violation("c %s" % shard["law"], {"part": "c", "law": shard["law"], "seed": seed,
                                                              "seq": [list(r) for r in seq], "comp": comp, "c": c},
                                      "%s with constant %r: %r vs base %r" % (shard["law"], c, got, base))
    acc.sample({"part": "c", "law": shard["law"], "rows": [list(r) for r in law_rows(shard["law"])], "constants": consts,
                "reward_dtype": dtype or "python floats"})


# ---------------------------------------------------------------- (d)
# long training sets (more rows per arm than any plausible internal block size) for the linear policies with and without
# standardisation: a fixed family of row orders, every one compared with the original order
BIG_N = (40, 300, 600)
BIG_LPS = ("lg", "lucb", "lg_s", "lucb_s")


def big_rows(n):
    return [(1 + (i * i + i // 3) % 2, [((7 * i) % 23) / 3.0 - 2.0, ((5 * i * i + 1) % 17) / 5.0, float(i % 4)],
             ((11 * i + 3) % 13) / 4.0 - 1.0) for i in range(n)]


def big_orders(n):
    idx = list(range(n))
    return {"reversed": idx[::-1], "rotate1": idx[1:] + idx[:1], "rotate_third": idx[n // 3:] + idx[:n // 3],
            "halves_swapped": idx[n // 2:] + idx[:n // 2], "even_then_odd": idx[0::2] + idx[1::2],
            "stride7": sorted(idx, key=lambda i: ((i * 7) % n, i)), "by_arm": sorted(idx, key=lambda i: (i * i + i // 3) % 2)}


BIG_Q = [[0.5, 1.0, 2.0], [-1.5, 0.25, 0.0], [3.0, 3.0, 3.0]]


def big_run(ln, nn, seed, rows):
    m = ops.build(A.config(ln, nn, seed=seed))
    ops.apply(m, ["fit", [r[0] for r in rows], [r[2] for r in rows], [list(r[1]) for r in rows]])
    return ops.call(m, "predict_expectations", BIG_Q)


def part_d(shard, acc):
    ln, nn, seed, n = shard["ln"], shard["nn"], shard["seed"], shard["n"]
    rows = big_rows(n)
    base = big_run(ln, nn, seed, rows)
    acc.outcome(base)
    for name, order in big_orders(n).items():
        got = big_run(ln, nn, seed, [rows[i] for i in order])
        acc.traces += 1
        key = (ln, nn, "big", n, name)
        acc.state(key)
        acc.case(key)
        if ops.is_exc(base) or not ops.same(got, base, rtol=1e-7, atol=1e-7):
            acc.violation("d %s/%s n=%d" % (ln, nn, n), {"part": "d", "ln": ln, "nn": nn, "seed": seed, "n": n, "order": name},
                          "%d rows in order %r give %r; in the original order %r" % (n, name, got, base))
    acc.sample({"part": "d", "combination": [ln, nn], "rows": n, "orders": sorted(big_orders(n))})


def run_shard(shard):
    acc = report.Acc(ID, replay, shard)
    {"a": part_a, "b": part_b, "c": part_c, "d": part_d}[shard["part"]](shard, acc)
    return acc.result()


def replay(w):
    if w["part"] == "d":
        rows = big_rows(w["n"])
        base = big_run(w["ln"], w["nn"], w["seed"], rows)
        got = big_run(w["ln"], w["nn"], w["seed"], [rows[i] for i in big_orders(w["n"])[w["order"]]])
        return [] if ops.same(got, base, rtol=1e-7, atol=1e-7) else ["%d rows reordered (%s) give %r, original %r" % (
            w["n"], w["order"], got, base)]
    if w["part"] == "a":
        mp = RELABELS[w["relabel"]]
        base = scenario_a(w["ln"], w["nn"], w["seed"], {1: 1, 2: 2, 3: 3})
        got = scenario_a(w["ln"], w["nn"], w["seed"], mp)
        tol = 1e-12 if w["ln"] in A.LINEAR_LPS else 0.0
        return [] if ops.same(got, relabel_value(base, mp), rtol=tol, atol=tol) else ["relabelled outputs differ: %r" % (got,)]
    if w["part"] == "b1":
        rows = [(r[0], r[1], r[2]) for r in w["rows"]]
        tol = 1e-9 if w["ln"] in A.LINEAR_LPS else 1e-12
        base = feed_rows(w["ln"], w["nn"], w["seed"], rows)
        got = feed_rows(w["ln"], w["nn"], w["seed"], [rows[i] for i in w["perm"]])
        return [] if ops.same(got, base, rtol=tol, atol=tol) else ["one-at-a-time permuted rows give %r, original %r" % (got, base)]
    if w["part"] == "b":
        rows = [(r[0], r[1], r[2]) for r in w["rows"]]
        tol = 1e-9 if w["ln"] in A.LINEAR_LPS else 0.0
        base = fit_rows(w["ln"], w["nn"], w["seed"], rows)
        got = fit_rows(w["ln"], w["nn"], w["seed"], [rows[i] for i in w["perm"]])
        return [] if ops.same(got, base, rtol=tol, atol=tol) else ["permuted rows give %r, original %r" % (got, base)]
    ln, kind = LAWS[w["law"]][:2]
    dtype = LAWS[w["law"]][3] if len(LAWS[w["law"]]) > 3 else None
    seq = [(r[0], r[1], r[2]) for r in w["seq"]]
    comp = [tuple(c) for c in w["comp"]]
    c = w["c"]
    base = law_run(ln, w["seed"], seq, comp, lambda r: r, dtype)
    f = (lambda r: r * c) if kind == "scale" else (lambda r: r + c)
    got = law_run(ln, w["seed"], seq, comp, f, dtype)
    return [] if law_check(kind, base, got, c) else ["law violated: %r vs %r" % (got, base)]
