"""Shared explicit-state search over histories of arm changes and training calls, starting
from the *unfitted* bandit.  C08, C09, C10 and C19 evaluate their oracles in every state of
this search (each check runs the search itself; nothing is cached between checks).

State      a live MAB (real object) + the history that reached it
Transition one public call with arguments from the alphabet below (built relative to the
           bandit's current arm list); a call that raises is not a transition (counted)
Dedup      canonical digest of the complete object graph (mcx.canon)"""
from . import env  # noqa: F401
import copy

from . import canon, data, ops

# "mixed": numeric initial arms and a str label for the arm added later (decision lists of one training call stay
# homogeneous in the first training ops; a list mixing both kinds is converted by numpy like any other list)
LABELS = {
    "int": ([0, 2], 1),                # 0 on purpose: tests on the truth value of a label (instead of "is None") show
    "str": (["b", "a"], "third"),      # unsorted on purpose (anything keyed by sorted labels shows); the added label is
                                       # longer than the initial ones (fixed-width string arrays must not truncate it)
    "float": ([1.5, 0.5], 2.5),
    "mixed": ([0, 2], "third"),
}


def initial_arms(labels):
    return list(LABELS[labels][0])


def train_ops(arms, cf, tag=""):
    """Training calls of the alphabet for the current arm list."""
    k = len(arms)
    out = [
        data.batch("fit", arms, [0, 1, 0, 1, 0, 1], data.R6, data.X6, cf),
        data.batch("fit", arms, [k - 1, k - 1, k - 1], [0, 0, 0], [[0, 0], [1, 1], [0, 2]], cf),   # omits arms; ties at 0
        data.batch("partial_fit", arms, [0], [1], [[1, 1]], cf),
        data.batch("partial_fit", arms, [1, k - 1], [0, 1], [[2, 0], [0, 0]], cf),
    ]
    return out


def arm_ops(arms, labels, removed):
    out = []
    new = LABELS[labels][1]
    if new not in arms and new not in removed:
        out.append(["add_arm", new])
    for r in removed:
        if r not in arms:
            out.append(["add_arm", r])            # re-adding a removed label
    if len(arms) > 1:
        out.append(["remove_arm", arms[0]])
    return out


def warm_op(arms):
    # the first two arms share one feature vector: every other arm is equally far from both, so that the choice of
    # the source arm exercises the tie-break (which must not depend on anything a query leaves behind)
    feats = [[a, [1, 0, 0] if i < 2 else [1, (i * 2) % 3, i % 2]] for i, a in enumerate(arms)]
    return ["warm_start", feats, 1.0]


def enabled_ops(mab, cf, labels, removed, warm=True, query=False):
    arms = list(mab.arms)
    out = train_ops(arms, cf) + arm_ops(arms, labels, removed)
    if warm and len(arms) > 1:
        out.append(warm_op(arms))
    if query and fitted(mab) and not knn_short(mab):
        # a prediction made by the bandit itself (not by a copy): whatever it leaves behind stays in the state
        out.append(["predict", None if cf else [[1, 1], [0, 0], [2, 2]]])      # odd number of rows: an odd number of 32-bit draws
    return out


def removed_after(removed, op, arms_before):
    if op[0] == "remove_arm":
        return removed + [op[1]] if op[1] not in removed else removed
    return removed


def fitted(mab):
    return bool(mab._is_initial_fit)


def explore(cfg, labels, depth, acc, visit, first_ops=None, warm=True, model=None, query=False):
    """BFS.  visit(mab, history, removed) is called once per distinct state (including the
    initial one).  first_ops: optional extra operations enabled only in the initial state.
    model: optional context-manager factory (e.g. sched.model) wrapped around every transition."""
    cf = ops.is_context_free(cfg)
    m0 = ops.build(cfg)
    acc.state(canon.digest(m0))
    frontier = [(m0, [], [])]
    d = 0
    while frontier:
        nxt = []
        for mab, hist, removed in frontier:
            visit(mab, hist, removed)
            if d == depth:
                continue
            todo = enabled_ops(mab, cf, labels, removed, warm, query)
            if d == 0 and first_ops:
                todo = todo + list(first_ops)
            for op in todo:
                m2 = copy.deepcopy(mab)
                try:
                    if model is None:
                        ops.apply(m2, op)
                    else:
                        with model():
                            ops.apply(m2, op)
                except Exception as e:                        # noqa: BLE001
                    acc.skip("transition %s raised %s (not taken)" % (op[0], type(e).__name__))
                    continue
                if acc.state(canon.digest(m2)):
                    nxt.append((m2, hist + [op], removed_after(removed, op, mab.arms)))
        frontier = nxt
        d += 1


def continuations(mab, cf, labels, removed, depth):
    """All operation sequences of length 0..depth from the continuation alphabet (relative to
    the arm list at each point).  Yields lists of ops; evaluated lazily by the caller on copies."""
    def rec(m, rem, left):
        yield []
        if left == 0:
            return
        arms = list(m.arms)
        k = len(arms)
        todo = [data.batch("partial_fit", arms, [0, k - 1], [1, 0], [[0, 1], [1, 1]], cf),
                data.batch("fit", arms, [0, 1, 1], [1, 1, 0], [[1, 0], [0, 1], [2, 2]], cf)]
        todo += arm_ops(arms, labels, rem)
        if k > 1:
            todo.append(warm_op(arms))
        for op in todo:
            m2 = copy.deepcopy(m)
            try:
                ops.apply(m2, op, count=False)
            except Exception:                                 # noqa: BLE001
                continue
            for tail in rec(m2, removed_after(rem, op, arms), left - 1):
                yield [op] + tail
    return rec(mab, removed, depth)


def query_sets(cf, cols=2):
    """(label, contexts) pairs: no contexts (context-free only), 1, 2 and 3 rows."""
    rows = [[0, 0], [1, 1], [2, 2]] if cols == 2 else [[0, 0, 0], [1, 1, 1], [2, 2, 2]]
    out = []
    if cf:
        out.append(("none", None))
    out += [("m1", rows[:1]), ("m2", rows[:2]), ("m3", rows[:3])]
    if cf:
        out.append(("m2w3", [[0, 0, 0], [1, 1, 1]]))        # context-free bandits take contexts of any width
    return out


def knn_short(mab):
    """KNearest with fewer stored rows than k: predictions are outside the property's domain."""
    imp = mab._imp
    if type(imp).__name__ == "_KNearest" and imp.contexts is not None:
        return len(imp.contexts) < imp.k
    return False
