"""Runner: ./check <ID> [--tier quick|thorough] [--replay file] [--workers N]"""
from . import env  # noqa: F401  (first: pins threads, selects the tree under test)
import argparse
import importlib
import json
import multiprocessing as mp
import os
import subprocess
import sys
import time
import traceback

from . import report, findings


def _load(prop):
    return importlib.import_module("mcx.props." + prop.lower())


_MOD = None


def _run_one(shard):
    try:
        return _MOD.run_shard(shard)
    except Exception:                                        # noqa: BLE001
        return {"error": traceback.format_exc(), "shard": shard}


def _pool_map(mod, shards, workers):
    """Shards marked {"in_parent": true} run in this process (they start real joblib workers, which
    daemonic pool workers may not), concurrently with the pool working on the others."""
    global _MOD
    _MOD = mod
    mine = [s for s in shards if isinstance(s, dict) and s.get("in_parent")]
    rest = [s for s in shards if not (isinstance(s, dict) and s.get("in_parent"))]
    if workers <= 1 or len(rest) <= 1:
        for s in rest + mine:
            yield _run_one(s)
        return
    ctx = mp.get_context("fork")
    with ctx.Pool(min(workers, len(rest))) as pool:
        it = pool.imap_unordered(_run_one, rest, chunksize=1)     # dispatched eagerly by the pool's threads
        for s in mine:
            yield _run_one(s)
        for r in it:
            yield r


def _replay(mod, prop, path):
    body = json.load(open(path))
    w = body["witness"]
    outs = []
    for i in range(2):
        msgs = mod.replay(w)
        outs.append(msgs)
        print("replay run %d: %s" % (i + 1, "property holds on this witness" if not msgs else "VIOLATED"))
        for m in msgs:
            print("   ", m)
    if outs[0] != outs[1]:
        print("HARNESS-ERROR: replay is not deterministic")
        return 2
    if outs[0]:
        fid = findings.classify(prop, w, mod.replay)
        if fid:
            print("KNOWN-FINDING: property=%s %s %s" % (prop, fid, findings.listed()[(prop, fid)]))
            return 0
        print("VIOLATION property=%s replay=%s" % (prop, os.path.abspath(path)))
        return 1
    return 0


def main(argv=None):
    ap = argparse.ArgumentParser()
    ap.add_argument("prop")
    ap.add_argument("--tier", default=env.tier_default(), choices=["quick", "thorough"])
    ap.add_argument("--replay")
    ap.add_argument("--workers", type=int, default=env.workers())
    ap.add_argument("--shard-digest", help=argparse.SUPPRESS)
    ap.add_argument("--only", help="substring filter on the JSON of a shard (debugging; marks run non-exhaustive)")
    a = ap.parse_args(argv)
    prop = a.prop.upper()
    global _MOD
    mod = _MOD = _load(prop)
    seed = env.seed()

    if a.replay:
        return _replay(mod, prop, a.replay)

    if a.shard_digest is not None:           # fresh-process determinism probe
        shard = json.loads(a.shard_digest)
        r = _run_one(shard)
        print("SHARD-DIGEST " + (r.get("digest") or "ERROR"))
        return 0

    t0 = time.time()
    shards = mod.shards(a.tier, seed)
    if a.only:
        shards = [s for s in shards if a.only in json.dumps(s, sort_keys=True, default=repr)]
    results, errors = [], []
    by_key = {}
    for r in _pool_map(mod, shards, a.workers):
        if "error" in r:
            errors.append(r)
        else:
            results.append(r)
            by_key[json.dumps(r["shard"], sort_keys=True, default=repr)] = r
    t_pool = time.time() - t0
    if os.environ.get("VERIF_SHOW_SLOW"):
        for r in sorted(results, key=lambda r: -r["wall"])[:int(os.environ["VERIF_SHOW_SLOW"])]:
            print("SLOW %.1fs %s" % (r["wall"], json.dumps(r["shard"], sort_keys=True, default=repr)[:160]))
    tot = report.merge(results)
    meta = mod.meta(a.tier, seed) if hasattr(mod, "meta") else dict(getattr(mod, "META", {}))

    # determinism probe: same shards again in this process tree and in a fresh interpreter
    det_note, det_error = "", None
    if not errors and shards and not a.only:
        if hasattr(mod, "determinism_shards"):
            probe = mod.determinism_shards(shards)
        else:       # the cheapest shard that did real work
            cand = sorted((r for r in results if r["evaluations"] > 0), key=lambda r: r["wall"])
            probe = [cand[0]["shard"]] if cand else shards[:1]
        ok = 0
        for s in probe:
            key = json.dumps(s, sort_keys=True, default=repr)
            first = by_key[key]["digest"]
            again = _run_one(s)
            out = subprocess.run([sys.executable, "-m", "mcx.run", prop, "--tier", a.tier, "--shard-digest", key],
                                 capture_output=True, text=True, cwd=env.VERIF, env=os.environ.copy())
            fresh = [ln.split()[1] for ln in out.stdout.splitlines() if ln.startswith("SHARD-DIGEST ")]
            if "error" in again or again.get("digest") != first or fresh != [first]:
                det_error = "observations of shard %s differ between runs (pool %s, in-process %s, fresh process %s)" % (
                    key[:200], first, again.get("digest", again.get("error", "?"))[:200], fresh or out.stderr[-300:])
                break
            ok += 1
        det_note = "%d shard(s) re-executed in-process and in a fresh interpreter with identical observation digests" % ok
    meta["determinism"] = det_note
    meta["phases_s"] = {"explore": round(t_pool, 1), "determinism_probe": round(time.time() - t0 - t_pool, 1)}

    wall = time.time() - t0
    error = None
    if errors:
        error = "%d shard(s) raised: %s" % (len(errors), errors[0]["error"][-1500:])
    elif det_error:
        error = det_error
    report.write_evidence(prop, a.tier, seed, tot, wall, meta, exhaustive=not a.only, error=error)

    print("%s tier=%s seed=%d shards=%d states=%d transitions=%d traces=%d evaluations=%d nontrivial=%d "
          "outcomes=%d skipped=%d wall=%.1fs" % (prop, a.tier, seed, tot["shards"], tot["states"], tot["transitions"],
                                                 tot["traces"], tot["evaluations"], tot["nontrivial"], tot["outcomes"],
                                                 sum(tot["skipped"].values()), wall))
    if error:
        print("HARNESS-ERROR property=%s %s" % (prop, error))
        return 2
    for fid, n in sorted(tot["known"].items()):
        print("KNOWN-FINDING: property=%s %s %s (witnesses this run: %d)" % (
            prop, fid, findings.listed().get((prop, fid), ""), n))
    if tot["n_violations"]:
        printed, per_sig = 0, {}
        for v in tot["violations"]:
            if printed >= 10 or per_sig.get(v["sig"], 0) >= 2:
                continue
            per_sig[v["sig"]] = per_sig.get(v["sig"], 0) + 1
            printed += 1
            path = report.write_replay(prop, v)
            print("VIOLATION property=%s replay=%s" % (prop, path))
            print("   [%s] %s" % (v["sig"], v["message"].splitlines()[0][:300] if v["message"] else ""))
        print("%s: %d violating case(s) in total" % (prop, tot["n_violations"]))
        for sig, n in sorted(tot["sig_counts"].items(), key=lambda kv: -kv[1])[:40]:
            print("   %6d  %s" % (n, sig))
        return 1
    return 0


if __name__ == "__main__":
    sys.exit(main())
