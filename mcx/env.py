"""Process environment for every check: imports fidelity/mabwiser from the working tree
under $MABWISER_REPO (default /repo), pins the numerical kernels to one thread, silences
logging and warnings.  Import this module before numpy / mabwiser."""
import os
import sys

for _v in ("OMP_NUM_THREADS", "OPENBLAS_NUM_THREADS", "MKL_NUM_THREADS", "NUMEXPR_NUM_THREADS"):
    os.environ[_v] = "1"

REPO = os.path.realpath(os.environ.get("MABWISER_REPO", "/repo"))
VERIF = os.path.dirname(os.path.dirname(os.path.abspath(__file__)))
sys.dont_write_bytecode = True          # never leave __pycache__ in the tree under test
if REPO not in sys.path:
    sys.path.insert(0, REPO)

import warnings                                             # noqa: E402
warnings.filterwarnings("ignore")
import logging                                              # noqa: E402
logging.disable(logging.CRITICAL)

import numpy as np                                          # noqa: E402,F401
import mabwiser                                             # noqa: E402
import mabwiser.mab                                         # noqa: E402,F401

_got = os.path.realpath(os.path.dirname(os.path.dirname(mabwiser.__file__)))
if _got != REPO:
    sys.stderr.write("HARNESS-ERROR: mabwiser imported from %s, expected %s\n" % (_got, REPO))
    sys.exit(2)


def seed() -> int:
    try:
        return int(os.environ.get("VERIF_SEED", "0"))
    except ValueError:
        return 0


def tier_default() -> str:
    t = os.environ.get("VERIF_TIER", "quick")
    return t if t in ("quick", "thorough") else "quick"


def workers() -> int:
    try:
        w = int(os.environ.get("VERIF_WORKERS", "0"))
    except ValueError:
        w = 0
    return w if w > 0 else min(16, os.cpu_count() or 1)
