"""Finite alphabets shared by the checks: policy catalogue, valid combinations, grids,
compositions.  Everything is ordered simplest-first."""
import itertools

# ----------------------------------------------------------------- learning policies
LPS = {
    "eg0":  ["EpsilonGreedy", {"epsilon": 0}],
    "eg5":  ["EpsilonGreedy", {"epsilon": 0.5}],
    "ucb":  ["UCB1", {"alpha": 1}],
    "sm":   ["Softmax", {"tau": 1}],
    "pop":  ["Popularity", {}],
    "ts":   ["ThompsonSampling", {}],
    "tsb":  ["ThompsonSampling", {"binarizer": "bin_ge1"}],
    "rnd":  ["Random", {}],
    "lg":   ["LinGreedy", {"epsilon": 0, "l2_lambda": 1}],
    "lucb": ["LinUCB", {"alpha": 1, "l2_lambda": 1}],
    "lts":  ["LinTS", {"alpha": 1e-9, "l2_lambda": 1}],
    "lts1": ["LinTS", {"alpha": 1, "l2_lambda": 1}],
}
# linear policies with per-arm standardisation (scale=True); used by the checks that name them explicitly
LPS["lg_s"] = ["LinGreedy", {"epsilon": 0, "l2_lambda": 1, "scale": True}]
LPS["lucb_s"] = ["LinUCB", {"alpha": 1, "l2_lambda": 1, "scale": True}]
SCALED_LPS = ("lg_s", "lucb_s")
DETERMINISTIC_LPS = ("eg0", "ucb", "lg", "lucb")
LINEAR_LPS = ("lg", "lucb", "lts", "lts1")
CONTEXT_FREE_LPS = ("eg0", "eg5", "ucb", "sm", "pop", "ts", "tsb", "rnd")
TREE_LPS = ("eg0", "eg5", "ucb", "ts", "tsb")

# ----------------------------------------------------------------- neighbourhood policies
NPS = {
    "none": None,
    "rad":  ["Radius", {"radius": 1.0, "metric": "cityblock"}],
    "knn":  ["KNearest", {"k": 2, "metric": "cityblock"}],
    "lsh":  ["LSHNearest", {"n_dimensions": 2, "n_tables": 2}],
    "clu":  ["Clusters", {"n_clusters": 2, "is_minibatch": False}],
    "mclu": ["Clusters", {"n_clusters": 2, "is_minibatch": True}],
    "tree": ["TreeBandit", {"tree_parameters": {}}],
}


def combos(lps=None, nps=None, lints1=False, scaled=False):
    """Valid (lp name, np name) pairs.  TreeBandit only over EpsilonGreedy / UCB1 / Thompson.
    LinTS with alpha = 1 ('lts1') only on request (generator identities, DESIGN 3.2)."""
    out = []
    for ln in (lps or LPS):
        if ln == "lts1" and not lints1:
            continue
        if ln in SCALED_LPS and not (scaled or lps):
            continue
        for nn in (nps or NPS):
            if nn == "tree" and ln not in TREE_LPS:
                continue
            out.append((ln, nn))
    return out


def config(ln, nn, arms=(1, 2), seed=7, n_jobs=1, backend=None):
    return {"arms": list(arms), "lp": LPS[ln] if isinstance(ln, str) else ln,
            "np": NPS[nn] if isinstance(nn, str) else nn, "seed": seed, "n_jobs": n_jobs, "backend": backend}


def context_free(ln, nn):
    return nn == "none" and ln in CONTEXT_FREE_LPS


# ----------------------------------------------------------------- data
GRID2 = [[0, 0], [0, 1], [1, 0], [1, 1], [2, 0], [0, 2], [2, 2], [1, 2], [2, 1]]


def grid(values, d):
    return [list(p) for p in itertools.product(values, repeat=d)]


def compositions(n):
    """All 2^(n-1) ordered splits of range(n) into contiguous non-empty chunks, as lists of
    (start, stop); the single-chunk split first."""
    if n == 0:
        return [[]]
    out = []
    for mask in range(2 ** (n - 1)):
        cuts = [0] + [i + 1 for i in range(n - 1) if mask >> i & 1] + [n]
        out.append([(cuts[i], cuts[i + 1]) for i in range(len(cuts) - 1)])
    out.sort(key=len)
    return out


def merges(a, b):
    """All order-preserving interleavings of two sequences, as lists of ('a'|'b', item)."""
    n, m = len(a), len(b)
    out = []
    for pos in itertools.combinations(range(n + m), n):
        pos = set(pos)
        ia = ib = 0
        seq = []
        for i in range(n + m):
            if i in pos:
                seq.append(("a", a[ia]))
                ia += 1
            else:
                seq.append(("b", b[ib]))
                ib += 1
        out.append(seq)
    return out


def relabel(x, mapping):
    """Apply an arm relabelling to an op / history / list of decisions."""
    if isinstance(x, list):
        return [relabel(v, mapping) for v in x]
    return mapping.get(x, x) if not isinstance(x, (dict,)) else x


_WEIGHT = {"clu": 0, "mclu": 0, "tree": 1, "lsh": 2, "knn": 3, "rad": 3, "none": 4}


def heavy_first(shards):
    """Stable sort putting the costly neighbourhood policies first (better load balance)."""
    return sorted(shards, key=lambda s: _WEIGHT.get(s.get("nn"), 5))
